"""Child process for the concurrency experiments (C16): W writers (threads) stage and transfer overlapping
directories into ONE local store sharing ONE hash-state database.  Every file-system mutation under the store is a
gate: a thread parks there until the scheduler gives it the turn, so an execution is a deterministic function of the
schedule.  Schedules are read from a JSON file; results are written as JSON.
Usage: python -m harness.schedchild <root> <schedules.json> <out.json> <uid|-1|-2>
uid -1: all writers root; uid >= 0: the whole process drops to that uid; uid -2: MIXED - the process stays root and every
writer thread takes its own file-system uid (61000 + w) and the common gid 61000 (setfsuid/setfsgid are per thread on
Linux and drop the thread's file-system capabilities), on a store opened with shared=True.
"""
from __future__ import annotations

import json
import os
import shutil
import sys
import threading

tls = threading.local()


class Sched:
    def __init__(self, writers):
        self.cv = threading.Condition()
        self.writers = list(writers)
        self.waiting = {}
        self.turn = None
        self.done = set()
        self.trace = []
        self.free = False

    def gate(self, desc):
        wid = getattr(tls, "wid", None)
        if wid is None or self.free:
            return
        with self.cv:
            self.waiting[wid] = desc
            self.cv.notify_all()
            while self.turn != wid and not self.free:
                self.cv.wait(timeout=30)
            self.turn = None
            self.waiting.pop(wid, None)
            self.trace.append([wid, desc])
            self.cv.notify_all()

    def finish(self, wid):
        with self.cv:
            self.done.add(wid)
            self.cv.notify_all()

    def settled(self):
        return all(w in self.waiting or w in self.done for w in self.writers)

    def run(self, pick):
        """pick(step, waiting_writers) -> writer id to run next."""
        step = 0
        while True:
            with self.cv:
                ok = self.cv.wait_for(self.settled, timeout=60)
                if not ok:
                    self.free = True
                    self.cv.notify_all()
                    return "stuck"
                if len(self.done) == len(self.writers):
                    return "ok"
                w = pick(step, sorted(self.waiting))
                step += 1
                self.turn = w
                self.cv.notify_all()
                self.cv.wait_for(lambda: self.turn is None, timeout=60)


SCHED = None
STORE = None
MIXED = {}


def _under(p):
    try:
        p = os.fspath(p)
    except TypeError:
        return False
    if isinstance(p, bytes):
        p = p.decode("utf-8", "surrogateescape")
    return STORE is not None and (p == STORE or p.startswith(STORE + os.sep))


def install_gates():
    import concurrent.futures as cf

    def wrap1(mod, name, argidx=0, always=False):
        real = getattr(mod, name)

        def f(*a, **kw):
            if SCHED is not None and len(a) > argidx and _under(a[argidx]):
                if name != "open" or (len(a) > 1 and a[1] & (os.O_WRONLY | os.O_RDWR | os.O_CREAT | os.O_TRUNC)):
                    SCHED.gate(f"{name}:{os.path.relpath(os.fspath(a[argidx]), STORE)}")
            return real(*a, **kw)

        setattr(mod, name, f)

    for name in ("open", "chmod", "unlink", "remove", "mkdir"):
        wrap1(os, name)
    for name in ("replace", "rename"):
        wrap1(os, name, argidx=1)
    wrap1(shutil, "copyfile", argidx=1)
    # the existence query of a transfer is a step of its own (Query in the spec): a gate before it and one after it,
    # so that another writer can run between "decided what to send" and "looks up where to copy it from"
    import dvc_data.hashfile.status as _st

    real_cmp = _st.compare_status

    def gated_compare_status(*a, **kw):
        if SCHED is not None:
            SCHED.gate("status")
        r = real_cmp(*a, **kw)
        if SCHED is not None:
            SCHED.gate("send")
        return r

    _st.compare_status = gated_compare_status
    real_submit = cf.ThreadPoolExecutor.submit

    def submit(self, fn, *a, **kw):
        wid = getattr(tls, "wid", None)

        def run(*aa, **kk):
            tls.wid = wid
            if MIXED.get("libc") is not None and wid is not None:  # pool threads act for their writer
                MIXED["libc"].setfsgid(MIXED["gid"])
                MIXED["libc"].setfsuid(MIXED["gid"] + wid)
            return fn(*aa, **kk)

        return real_submit(self, run, *a, **kw)

    cf.ThreadPoolExecutor.submit = submit


FILES = {"f1": b"one\n", "f2": b"two, shared by every writer\r\n", "f3": b"three\x00", "f4": b""}
# "big" schedules: the same files padded beyond the 1 MiB threshold above which build() hashes a directory's files in its
# own thread pool (sizes far apart, so that the pool does not finish them in listing order)
BIG_PAD = {"f1": 6 << 20, "f2": (1 << 20) + 200_000, "f3": 3 << 20, "f4": 0}


def content(f, big=False):
    if f in OWN:
        return OWN[f]
    if big and BIG_PAD[f]:
        unit = b"%s padding 0123456789 abcdefghijklmnopqrstuvwxyz\n" % f.encode()
        return FILES[f] + (unit * (BIG_PAD[f] // len(unit) + 1))[: BIG_PAD[f]]
    return FILES[f]


# "upload" schedules: build(..., upload=True) - every file is first uploaded into the store under a temporary name, the
# transfer then files it under its digest.  Both writers stage THE SAME PATH STRING (one on the local file system, one on
# an in-memory file system) and each has a file `own.bin` of its own content next to the shared ones.
OWN = {"o1": b"own data of writer 1\n", "o2": b"own data of writer 2, longer\n"}


def req_of(w, upload=False):
    return REQ[w] + ([f"o{w}"] if upload else [])


def fname(f):
    return "own.bin" if f.startswith("o") else f + ".bin"


# writer i stages {f_i, f2, f4}: f2 (and the empty f4) are shared
REQ = {1: ["f1", "f2", "f4"], 2: ["f2", "f3", "f4"], 3: ["f1", "f3", "f2"]}


def main():
    global SCHED, STORE
    root, sched_file, out_file, uid = sys.argv[1], sys.argv[2], sys.argv[3], int(sys.argv[4])
    import logging

    errtypes = []
    errnos = []

    class Collect(logging.Handler):
        def emit(self, record):
            if record.exc_info and record.exc_info[1] is not None:
                errtypes.append([getattr(tls, "wid", 0), type(record.exc_info[1]).__name__])
                if getattr(record.exc_info[1], "errno", None):
                    errnos.append(int(record.exc_info[1].errno))

    logging.getLogger().addHandler(Collect())
    logging.getLogger().setLevel(logging.ERROR)
    logging.getLogger().handlers = [h for h in logging.getLogger().handlers if isinstance(h, Collect)]
    from dvc_objects.fs.local import LocalFileSystem

    from dvc_data.hashfile.build import build
    from dvc_data.hashfile.db.local import LocalHashFileDB
    from dvc_data.hashfile.state import State
    from dvc_data.hashfile.transfer import transfer

    # warm every import the library may need later (a complete run in a throw-away directory), then drop privileges:
    # the interpreter's own files are not readable for the unprivileged uid
    import tempfile

    warm = tempfile.mkdtemp(prefix="warm-", dir=root)
    os.makedirs(os.path.join(warm, "ws"))
    with open(os.path.join(warm, "ws", "x"), "wb") as fh:
        fh.write(b"warm")
    wstate = State(root_dir=warm, tmp_dir=os.path.join(warm, "state"))
    wodb = LocalHashFileDB(LocalFileSystem(), os.path.join(warm, "store"), state=wstate)
    wst, _wm, wobj = build(wodb, os.path.join(warm, "ws"), LocalFileSystem(), "md5")
    transfer(wst, wodb, {wobj.hash_info}, shallow=False)
    wstate.close()
    shutil.rmtree(warm, ignore_errors=True)

    schedules = json.load(open(sched_file))
    mixed = uid == -2
    GID = 61000
    if uid >= 0:
        os.setgid(uid)
        os.setuid(uid)
    if mixed:
        import ctypes

        libc = ctypes.CDLL(None, use_errno=True)
        os.umask(0o002)
        MIXED.update({"libc": libc, "gid": GID})
    install_gates()
    results = []
    for si, sc in enumerate(schedules):
        nw = sc["writers"]
        base = os.path.join(root, f"run{si}")
        os.makedirs(base)
        STORE = os.path.join(base, "store")
        fs = LocalFileSystem()
        if mixed:
            # group-shared directories (setgid, group-writable) for the store and the state database
            for d in (STORE, os.path.join(base, "state"), os.path.join(base, "state", "hashes"), os.path.join(base, "state", "hashes", "local"),
                      os.path.join(base, "state", "links")):
                os.makedirs(d, exist_ok=True)
                os.chown(d, -1, GID)
                os.chmod(d, 0o2775)
        state = State(root_dir=base, tmp_dir=os.path.join(base, "state"))
        if mixed:
            for r_, _ds, fs_ in os.walk(os.path.join(base, "state")):
                for f_ in fs_:
                    os.chown(os.path.join(r_, f_), -1, GID)
                    os.chmod(os.path.join(r_, f_), 0o664)
        upload = bool(sc.get("upload"))
        mfs = None
        for w in range(1, nw + 1):
            d = os.path.join(base, f"ws{w}", "data")
            os.makedirs(d)
            for f in REQ[w]:
                with open(os.path.join(d, f + ".bin"), "wb") as fh:
                    fh.write(content(f, sc.get("big")))
        if upload:
            from dvc_objects.fs.memory import MemoryFileSystem

            shared_path = os.path.join(base, "wsU", "data")       # the one path string both writers stage
            os.makedirs(shared_path)
            mfs = MemoryFileSystem()
            for w in (1, 2):
                for f in req_of(w, True):
                    if w == 1:
                        with open(os.path.join(shared_path, fname(f)), "wb") as fh:
                            fh.write(content(f))
                    else:
                        mfs.fs.makedirs(shared_path, exist_ok=True)
                        mfs.fs.pipe_file(shared_path + "/" + fname(f), content(f))
        SCHED = Sched(range(1, nw + 1))
        outcome = {}
        del errtypes[:]
        del errnos[:]

        def writer(w):
            tls.wid = w
            try:
                if mixed:
                    if libc.setfsgid(GID) < 0 or libc.setfsuid(GID + w) < 0:
                        raise OSError("setfsuid failed")
                    libc.setfsuid(GID + w)  # the second call returns the previous value: must be ours now
                odb = LocalHashFileDB(fs, STORE, state=state, **({"shared": True} if mixed else {}))
                if upload:
                    staging, _m, obj = build(odb, shared_path, fs if w == 1 else mfs, "md5", upload=True)
                else:
                    staging, _m, obj = build(odb, os.path.join(base, f"ws{w}", "data"), fs, "md5")
                res = transfer(staging, odb, {obj.hash_info}, shallow=False)
                outcome[w] = {"ok": not res.failed, "failed": sorted(h.value for h in res.failed), "dir": obj.hash_info.value, "exc": ""}
            except BaseException as exc:  # noqa: BLE001 - the writer's failure is the observation
                outcome[w] = {"ok": False, "failed": [], "dir": "", "exc": f"{type(exc).__name__}: {exc}"[:200]}
                if getattr(exc, "errno", None):
                    errnos.append(int(exc.errno))
            finally:
                # done: this writer moves on and its workspace gets the next round of data under the same names (nobody
                # else has any business reading it)
                try:
                    d_ = os.path.join(base, f"ws{w}", "data")
                    for f_ in os.listdir(d_):
                        with open(os.path.join(d_, f_), "wb") as fh_:
                            fh_.write(b"next round of writer %d: %s\n" % (w, f_.encode()))
                except OSError:
                    pass
                SCHED.finish(w)

        threads = [threading.Thread(target=writer, args=(w,)) for w in range(1, nw + 1)]
        for t in threads:
            t.start()
        order = sc["order"]

        def pick(step, waiting):
            want = order[step % len(order)] if order else waiting[0]
            if sc.get("mode") == "preempt":
                # run `first` for k steps, then the other(s) to completion, then the rest
                k, first = sc["k"], sc["first"]
                others = [w for w in waiting if w != first]
                if step < k and first in waiting:
                    return first
                return others[0] if others else first
            return want if want in waiting else waiting[0]

        status = SCHED.run(pick)
        for t in threads:
            t.join(timeout=60)
        if mfs is not None and mfs.fs.exists(os.path.join(base, "wsU")):
            mfs.fs.rm(os.path.join(base, "wsU"), recursive=True)
        state.close()
        results.append({"schedule": sc, "status": status, "outcome": {str(k): v for k, v in outcome.items()},
                        "errtypes": sorted({e[1] for e in errtypes}), "errnos": sorted(set(errnos)),
                        "steps": len(SCHED.trace), "trace_head": SCHED.trace[:12], "base": base})
        SCHED = None
    json.dump(results, open(out_file, "w"))
    os._exit(0)


if __name__ == "__main__":
    main()
