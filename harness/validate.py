"""Trace validation by TLC: write the observed traces as one JSON document, run the
trace specification, collect the VERDICT / DIVERGENCE lines it prints."""
from __future__ import annotations

import os
import re
import shutil
from concurrent.futures import ThreadPoolExecutor
from pathlib import Path

from . import core, tlc

SPECS = tlc.SPECS


def cfg_with_known(cfg: str | Path, overrides: dict | None = None) -> str:
    """Copy a cfg into scratch with KnownDev replaced by the open findings
    (and optional constant overrides `name -> literal text`)."""
    p = Path(cfg)
    if not p.is_absolute():
        p = SPECS / cfg
    text = p.read_text()
    devs = ", ".join(f'"{d}"' for d in core.known_dev_ids())
    text = re.sub(r"KnownDev\s*=\s*\{[^}]*\}", "KnownDev = {" + devs + "}", text)
    for k, v in (overrides or {}).items():
        text, n = re.subn(rf"(^\s*{re.escape(k)}\s*=\s*).*$", lambda m: m.group(1) + v, text, flags=re.M)
        if n == 0:
            raise tlc.MachineryError(f"constant {k} not found in {cfg}")
    d = tlc.scratch_dir("cfg-")
    out = os.path.join(d, p.name)
    Path(out).write_text(text)
    return out


def run_design(run: core.Run, module: str, cfg: str, *, name=None, overrides=None, workers="auto",
               required_actions=(), timeout=1800, constants=None):
    tlc.sany(module + ".tla")
    c = cfg_with_known(cfg, overrides)
    try:
        res = tlc.run_tlc(module, c, workers=workers, timeout=timeout)
    finally:
        shutil.rmtree(os.path.dirname(c), ignore_errors=True)
    run.add_design(name or f"{module}/{Path(cfg).name}", res, constants=constants)
    if required_actions:
        run.require_actions(res, required_actions)
    return res


def validate_traces(trace_module: str, cfg: str, data, *, shards: int = 1, overrides=None,
                    timeout=1800, depth_first=False):
    """Validate `data` (a list of traces / records) with specs/trace/<trace_module>.tla.

    The list is split into `shards` contiguous pieces validated by parallel TLC
    processes (each single-worker, so printed lines never interleave).
    Returns (printed_values, stats) where each printed value gets its trace index
    re-based to the global numbering (field 4 of the tuple, 1-based).
    """
    tdir = SPECS / "trace"
    tlc.sany(str(tdir / (trace_module + ".tla")))
    c = cfg_with_known(tdir / cfg, overrides)
    work = tlc.scratch_dir("traces-")
    n = len(data)
    shards = max(1, min(shards, n))
    bounds = [(k * n // shards, (k + 1) * n // shards) for k in range(shards)]

    def one(k):
        lo, hi = bounds[k]
        f = os.path.join(work, f"t{k}.json")
        tlc.write_json(f, data[lo:hi])
        res = tlc.run_tlc(trace_module, c, workers=1, cwd=tdir, env={"TRACE_FILE": f},
                          coverage=False, timeout=timeout, depth_first=depth_first)
        if not res.ok:
            raise tlc.MachineryError(
                f"trace validation TLC run failed ({trace_module} shard {k}): "
                f"violated={res.violated} error={res.error}\n{res.stdout[-3000:]}")
        out = []
        for v in res.printed:
            if isinstance(v, tuple) and len(v) >= 4 and v[0] in ("VERDICT", "DIVERGENCE", "INFO"):
                v = v[:3] + (v[3] + lo,) + v[4:]
            out.append(v)
        return out, res

    try:
        with ThreadPoolExecutor(max_workers=shards) as ex:
            results = list(ex.map(one, range(shards)))
    finally:
        shutil.rmtree(work, ignore_errors=True)
        shutil.rmtree(os.path.dirname(c), ignore_errors=True)
    printed = [v for out, _ in results for v in out]
    stats = {
        "tlc_states": sum(r.distinct for _, r in results),
        "tlc_generated": sum(r.generated for _, r in results),
        "wall_s": max(r.wall_s for _, r in results),
    }
    return printed, stats
