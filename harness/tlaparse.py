"""Parser for TLA+ values as printed by TLC (PrintT output, -simulate files, dot dumps).

Produces plain Python data: sets -> frozenset, tuples -> tuple, records and
functions -> dict (function with domain 1..n printed as <<...>> stays a tuple),
strings -> str, numbers -> int, TRUE/FALSE -> bool, model values -> Ident(str).
"""
from __future__ import annotations

import re


class Ident(str):
    """A bare identifier (model value)."""

    def __repr__(self):
        return f"Ident({str.__repr__(self)})"


class FrozenDict(dict):
    def __hash__(self):  # type: ignore[override]
        return hash(frozenset(self.items()))


_TOKEN = re.compile(
    r"""\s*(?:
      (?P<num>-?\d+) |
      (?P<str>"(?:[^"\\]|\\.)*") |
      (?P<op><<|>>|\|->|:>|@@|\.\.|[{}\[\](),]) |
      (?P<id>[A-Za-z_][A-Za-z0-9_!]*)
    )""",
    re.X,
)


class ParseError(ValueError):
    pass


def tokenize(text: str):
    pos = 0
    out = []
    n = len(text)
    while pos < n:
        m = _TOKEN.match(text, pos)
        if not m:
            if text[pos:].strip() == "":
                break
            raise ParseError(f"bad token at {pos}: {text[pos:pos+40]!r}")
        pos = m.end()
        kind = m.lastgroup
        out.append((kind, m.group(kind)))
    return out


def _unescape(s: str) -> str:
    body = s[1:-1]
    return (
        body.replace("\\\\", "\x00")
        .replace('\\"', '"')
        .replace("\\n", "\n")
        .replace("\\t", "\t")
        .replace("\x00", "\\")
    )


class _P:
    def __init__(self, toks):
        self.toks = toks
        self.i = 0

    def peek(self):
        return self.toks[self.i] if self.i < len(self.toks) else (None, None)

    def next(self):
        t = self.peek()
        self.i += 1
        return t

    def expect(self, val):
        k, v = self.next()
        if v != val:
            raise ParseError(f"expected {val!r}, got {v!r} at token {self.i}")

    def value(self):
        v = self.atom()
        # function composition  a :> b @@ c :> d
        k, t = self.peek()
        if t == ":>":
            d = FrozenDict()
            self.next()
            d[v] = self.atom()
            while self.peek()[1] == "@@":
                self.next()
                kk = self.atom()
                self.expect(":>")
                d[kk] = self.atom()
            return d
        if t == "..":
            self.next()
            hi = self.atom()
            return frozenset(range(v, hi + 1))
        return v

    def atom(self):
        k, t = self.next()
        if k == "num":
            return int(t)
        if k == "str":
            return _unescape(t)
        if k == "id":
            if t == "TRUE":
                return True
            if t == "FALSE":
                return False
            return Ident(t)
        if t == "{":
            items = []
            if self.peek()[1] == "}":
                self.next()
                return frozenset()
            while True:
                items.append(self.value())
                k2, t2 = self.next()
                if t2 == "}":
                    break
                if t2 != ",":
                    raise ParseError(f"set: unexpected {t2!r}")
            return frozenset(items)
        if t == "<<":
            items = []
            if self.peek()[1] == ">>":
                self.next()
                return ()
            while True:
                items.append(self.value())
                k2, t2 = self.next()
                if t2 == ">>":
                    break
                if t2 != ",":
                    raise ParseError(f"tuple: unexpected {t2!r}")
            return tuple(items)
        if t == "[":
            d = FrozenDict()
            if self.peek()[1] == "]":
                self.next()
                return d
            while True:
                k2, name = self.next()
                self.expect("|->")
                d[str(name)] = self.value()
                k3, t3 = self.next()
                if t3 == "]":
                    break
                if t3 != ",":
                    raise ParseError(f"record: unexpected {t3!r}")
            return d
        if t == "(":
            v = self.value()
            self.expect(")")
            return v
        raise ParseError(f"unexpected token {t!r}")


def parse(text: str):
    p = _P(tokenize(text))
    v = p.value()
    if p.i != len(p.toks):
        raise ParseError(f"trailing tokens after value: {p.toks[p.i:p.i+3]}")
    return v


def to_json(v):
    """Convert parsed value to JSON-compatible data (sets -> sorted lists)."""
    if isinstance(v, (frozenset, set)):
        return sorted((to_json(x) for x in v), key=lambda x: repr(x))
    if isinstance(v, tuple):
        return [to_json(x) for x in v]
    if isinstance(v, dict):
        return {str(k): to_json(x) for k, x in v.items()}
    if isinstance(v, Ident):
        return str(v)
    return v


_STATE_HDR = re.compile(r"^\\\*\s*<(?P<act>[^>]*)>\s*$|^STATE_(\d+)\s*==\s*$")


def parse_sim_file(text: str):
    """Parse a file written by `tlc -simulate file=...`.

    Returns list of (action_label, state_dict).  action_label is the text in
    `\\* <Action line ...>` (first word = action name) or None for the initial state.
    """
    states = []
    cur_act = None
    cur_lines: list[str] | None = None

    def flush():
        nonlocal cur_lines
        if cur_lines is None:
            return
        body = "\n".join(cur_lines)
        st = parse_state(body)
        states.append((cur_act, st))
        cur_lines = None

    for line in text.splitlines():
        if line.startswith("\\*"):
            m = re.match(r"^\\\*\s*<(.*)>\s*$", line)
            if m:
                flush()
                cur_act = m.group(1).split(" line ")[0].strip()
            continue
        if re.match(r"^STATE_\d+\s*==", line):
            flush() if cur_lines is not None else None
            cur_lines = []
            rest = line.split("==", 1)[1]
            if rest.strip():
                cur_lines.append(rest)
            continue
        if line.startswith("====") or line.startswith("----") or line.startswith("EXTENDS"):
            continue
        if cur_lines is not None:
            cur_lines.append(line)
    flush()
    return states


def parse_state(body: str) -> dict:
    """Parse `/\\ x = v /\\ y = w` conjunction text into dict."""
    parts = re.split(r"(?:^|\n)\s*/\\\s+", "\n" + body.strip())
    out = {}
    for part in parts:
        part = part.strip()
        if not part:
            continue
        m = re.match(r"^([A-Za-z_][A-Za-z0-9_]*)\s*=\s*(.*)$", part, re.S)
        if not m:
            raise ParseError(f"bad state conjunct: {part[:60]!r}")
        out[m.group(1)] = parse(m.group(2))
    return out
