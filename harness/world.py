"""A concrete little world for the object-store specifications: contents, workspace
trees, store directories, fault-injecting / journaling file systems, observation.

Everything here is harness code: it only uses dvc-data through its public API and
observes through the file system (walk + independent re-hash), never through the
code under test.
"""
from __future__ import annotations

import errno
import hashlib
import json
import os
import random
import shutil
import stat
import threading

from dvc_objects.fs.local import LocalFileSystem

NAME_POOL = ["a", "b é", "sub/c", "sub/deep/d d", "x.dir", ".hidden", "sub/e", "Z" * 40, "ü ñ/f", "g"]


class Killed(BaseException):
    """The simulated process death / unwinding exception raised from a file-system call."""


def md5(b: bytes) -> str:
    return hashlib.md5(b).hexdigest()


def canonical_dir_bytes(entries: dict[str, str], key: str = "md5") -> bytes:
    """Independent canonical encoder of a directory listing {relpath: file md5}; `key` = the name the entries' hashes go by
    (the store's algorithm name: "md5", or e.g. "etag" / "checksum" for stores keyed by what a cloud reports)."""
    lst = [{key: h, "relpath": rel} for rel, h in entries.items()]
    lst.sort(key=lambda e: e["relpath"])
    return json.dumps(lst, sort_keys=True).encode("utf-8")


CONTENT_CLASSES = [
    lambda r, i: b"",
    lambda r, i: bytes([65 + i]),
    lambda r, i: f"line {i}\nsecond\n".encode(),
    lambda r, i: f"crlf {i}\r\nsecond\r\n".encode(),
    lambda r, i: f"lone cr {i}\r".encode(),
    lambda r, i: b"bin\x00" + bytes(r.randrange(256) for _ in range(20)) + bytes([i]),
    lambda r, i: bytes(r.randrange(128, 256) for _ in range(40)) + bytes([i]),
    lambda r, i: (f"{i}:".encode() + b"x" * 600)[:511 + (i % 3)],
]


class Universe:
    """Model ids <-> concrete data.  files: ["f1",..]; dirs: {"d1": ["f1","f2"], ...}."""

    def __init__(self, files, dirs: dict[str, list[str]], seed=0, allow_empty=True, pads=0, no_crlf=False, entry_key="md5"):
        # no_crlf: contents on which the legacy text-normalising md5 equals the plain md5 (for stores of that algorithm)
        rng = random.Random(seed)
        self.files = list(files)
        self.pads = [f"p{i + 1}" for i in range(pads)]
        self.dirs = {d: list(fs) for d, fs in dirs.items()}
        self.content: dict[str, bytes] = {}
        used = set()
        for i, f in enumerate(self.files):
            while True:
                k = rng.randrange(0 if allow_empty else 1, len(CONTENT_CLASSES))
                c = CONTENT_CLASSES[k](rng, i)
                if c not in used and not (no_crlf and b"\r\n" in c):
                    break
            used.add(c)
            self.content[f] = c
        # padding objects whose md5 starts with "00": they make the base store estimate a large
        # remote, which switches oids_exist() to its per-object strategy for small queries
        k = 0
        for pname in self.pads:
            while True:
                c = f"pad-{seed}-{k}".encode()
                k += 1
                if md5(c).startswith("00"):
                    break
            self.content[pname] = c
        self.files = self.files + self.pads
        self.oid = {f: md5(self.content[f]) for f in self.files}
        # relative paths inside each directory (a file listed by two dirs gets different paths)
        self.relpaths: dict[str, dict[str, str]] = {}
        for n_, (d, fs) in enumerate(self.dirs.items()):
            names = rng.sample(NAME_POOL, len(fs))
            if seed % 3 == 2 and n_ == 0 and len(fs) >= 2:
                # two names that differ in their Unicode normalisation form only (distinct files on Linux)
                names[:2] = ["sub/caf\u00e9.txt", "sub/cafe\u0301.txt"]
            self.relpaths[d] = dict(zip(names, fs))  # relpath -> file id
            b = canonical_dir_bytes({rel: self.oid[f] for rel, f in self.relpaths[d].items()}, entry_key)
            self.content[d] = b
            self.oid[d] = md5(b) + ".dir"
        self.rev = {v: k for k, v in self.oid.items()}
        assert len(self.rev) == len(self.oid), "oid collision in universe"

    @property
    def oids(self):
        return self.files + list(self.dirs)

    def describe(self):
        return {
            "files": self.files,
            "dirs": sorted(self.dirs),
            "lists": {d: sorted(set(fs)) for d, fs in self.dirs.items()},
        }

    def model_id(self, concrete_oid: str) -> str:
        return self.rev.get(concrete_oid, "?" + concrete_oid)

    def hash_info(self, x: str, name="md5"):
        from dvc_data.hashfile.hash_info import HashInfo

        return HashInfo(name, self.oid[x])


def object_hash_ok(oid: str, data: bytes) -> bool:
    return md5(data) + (".dir" if oid.endswith(".dir") else "") == oid


class World:
    """Sandbox with a workspace, stores, an index dir; records events."""

    def __init__(self, root: str, uni: Universe, stores: dict[str, str], idx_store: str | None = None):
        self.root = root
        self.uni = uni
        self.stores = dict(stores)  # name -> class
        self.idx_store = idx_store
        self.lock = threading.RLock()
        self.events: list[dict] = []
        self.F: set[str] = set()
        self.abort_at: int | None = None
        self.nputs = 0
        self.xfer_active = False
        self.xfer_src: str | None = None
        self.xfer_dst: str | None = None
        self.state = None  # a real dvc_data State shared by the local stores, or None (StateNoop)
        self.store_spelling = "plain"
        self.reuse = False
        self._handles = {}
        self.alg = "md5"   # the stores' hash algorithm ("md5-dos2unix": stores written by DVC 2.x)
        self.fault_kind = 0
        os.makedirs(root, exist_ok=True)
        for s in self.stores:
            os.makedirs(self.store_path(s), exist_ok=True)
        self.ws = os.path.join(root, "ws")
        self._make_workspace()

    # ---- layout -----------------------------------------------------------
    def store_path(self, s: str) -> str:
        return os.path.join(self.root, "store-" + s)

    def obj_path(self, s: str, x: str) -> str:
        o = self.uni.oid[x]
        return os.path.join(self.store_path(s), o[:2], o[2:])

    def _make_workspace(self):
        os.makedirs(self.ws, exist_ok=True)
        for f in self.uni.files:
            with open(os.path.join(self.ws, f), "wb") as fh:
                fh.write(self.uni.content[f])
        for d, rels in self.uni.relpaths.items():
            for rel, f in rels.items():
                p = os.path.join(self.ws, d, *rel.split("/"))
                os.makedirs(os.path.dirname(p), exist_ok=True)
                with open(p, "wb") as fh:
                    fh.write(self.uni.content[f])

    def ws_path(self, x: str) -> str:
        return os.path.join(self.ws, x)

    # ---- direct manipulation (set-up, tampering) --------------------------------
    def place(self, s: str, x: str, st: str):
        """Put object x into store s in abstract state st, bypassing the library."""
        p = self.obj_path(s, x)
        if st == "none":
            if os.path.lexists(p):
                os.chmod(p, 0o644)
                os.unlink(p)
            return
        os.makedirs(os.path.dirname(p), exist_ok=True)
        if os.path.lexists(p):
            os.chmod(p, 0o644)
        data = self.uni.content[x]
        if st.startswith("bad"):
            data = data + b"\n#tampered"
        with open(p, "wb") as fh:
            fh.write(data)
        os.chmod(p, 0o444 if st.endswith("_p") else 0o644)

    def setup(self, init_store: dict):
        for s, objs in init_store.items():
            for x, st in objs.items():
                if st != "none":
                    self.place(s, x, st)

    # (the last two leave other writable modes than the store's own: 0o600 is what mkstemp + rename gives, 0o664 a
    # group-writable edit; "not write-protected" is all the statement asks)
    TAMPER_PATTERNS = ["append", "truncate", "same_len", "other_len", "rename", "rename600", "append664", "append_cr"]

    def tamper(self, s: str, x: str, pat: str = "append"):
        """Make the bytes of object x in store s mismatch its name the way a user could: after
        chmod u+w.  Every pattern leaves a (inode, mtime, size) token that differs from the old one
        in a controlled way (same_len: only the mtime, by 1 ms; rename: only the inode)."""
        p = self.obj_path(s, x)
        st = os.stat(p)
        os.chmod(p, 0o644)
        with open(p, "rb") as fh:
            data = fh.read()
        if x in self.uni.dirs:
            # a directory object: trailing white space - it still parses to the same listing
            mode = {"rename600": 0o600, "append664": 0o664}.get(pat)
            with open(p, "r+b") as fh:
                fh.write(data + b"\n" * (1 + data.count(b"\n")))
            os.utime(p, ns=(st.st_mtime_ns + 7_000_000_000, st.st_mtime_ns + 7_000_000_000))
            if mode is not None:
                os.chmod(p, mode)
            return
        mode = {"rename600": 0o600, "append664": 0o664}.get(pat)
        pat = {"rename600": "rename", "append664": "append"}.get(pat, pat)
        if not data and pat in ("truncate", "same_len", "rename"):
            pat = "append"
        if pat == "append_cr":      # one bare carriage return at the end (a text file saved by another editor)
            new, mt = data + b"\r", st.st_mtime_ns + 7_000_000_000
        elif pat == "append":
            new, mt = data + b"\n#tampered", st.st_mtime_ns + 7_000_000_000
        elif pat == "truncate":
            new, mt = data[:-1], st.st_mtime_ns + 7_000_000_000
        elif pat == "other_len":
            new, mt = b"completely different " + data[::-1], st.st_mtime_ns + 3_000_000_000
        else:  # same length
            new = bytes([(data[0] + 1) % 256]) + data[1:]  # (not an involution: tampering twice does not restore the bytes)
            # stay within the same wall-clock second when possible: +1 ms
            mt = st.st_mtime_ns + 1_000_000
            if mt // 1_000_000_000 != st.st_mtime_ns // 1_000_000_000:
                mt = st.st_mtime_ns - 1_000_000
        if pat == "rename":
            tmp = p + ".edit"
            with open(tmp, "wb") as fh:
                fh.write(new)
            os.utime(tmp, ns=(st.st_mtime_ns, st.st_mtime_ns))  # same mtime, same size, new inode
            os.replace(tmp, p)
        else:
            with open(p, "r+b") as fh:
                fh.write(new)
                fh.truncate(len(new))
            os.utime(p, ns=(mt, mt))
        if mode is not None:
            os.chmod(p, mode)

    def ext_delete(self, s: str, x: str):
        p = self.obj_path(s, x)
        if not os.path.lexists(p):
            return  # the code under test left the store otherwise than the history expects: the trace validation says so
        os.chmod(p, 0o644)
        os.unlink(p)

    # ---- observation --------------------------------------------------------
    def observe_store(self, s: str):
        objs, aliens = {}, []
        root = self.store_path(s)
        for d1 in sorted(os.listdir(root)):
            p1 = os.path.join(root, d1)
            if not os.path.isdir(p1) or len(d1) != 2:
                continue  # not an object by the layout rule (e.g. upload temporaries in the root)
            for name in sorted(os.listdir(p1)):
                p = os.path.join(p1, name)
                if not os.path.isfile(p):
                    continue
                if name.endswith(".tmp") and name.startswith("."):
                    continue  # temporary name of an in-flight copy
                oid = d1 + name
                st = os.lstat(p)
                with open(p, "rb") as fh:
                    ok = object_hash_ok(oid, fh.read())
                prot = stat.S_IMODE(st.st_mode) == 0o444
                status = ("ok" if ok else "bad") + ("_p" if prot else "_u")
                m = self.uni.rev.get(oid)
                if m is None:
                    aliens.append({"store": s, "oid": oid, "status": status})
                else:
                    objs[m] = status
        return objs, aliens

    def observe(self):
        store, aliens = {}, []
        for s in self.stores:
            o, a = self.observe_store(s)
            store[s] = o
            aliens += a
        return {"store": store, "ridx": self.observe_index(), "aliens": aliens}

    # ---- index ----------------------------------------------------------------
    def index_dir(self):
        return os.path.join(self.root, "idx")

    def open_index(self):
        from dvc_data.hashfile.db.index import ObjectDBIndex

        return ObjectDBIndex(self.index_dir(), "remote-index")

    def observe_index(self):
        if not self.idx_store or not os.path.isdir(os.path.join(self.index_dir(), "index")):
            return []
        idx = self.open_index()
        try:
            return sorted(self.uni.model_id(h) for h in idx)
        finally:
            idx.close()

    # ---- store handles -----------------------------------------------------------
    def odb(self, s: str, role: str = "plain", **config):
        from dvc_data.hashfile.db import HashFileDB
        from dvc_data.hashfile.db.local import LocalHashFileDB

        if self.reuse:
            # one long-lived handle per (store, role): what a handle remembers about its store (the prefix directories it has
            # seen) must not decide what a query answers
            key = (s, role, tuple(sorted((k, str(v)) for k, v in config.items() if not (k == "read_only" and v is False))))
            if key not in self._handles:
                self.reuse = False
                try:
                    self._handles[key] = self.odb(s, role, **config)
                finally:
                    self.reuse = True
            return self._handles[key]
        fs = {"dst": FaultFS, "src": JournalFS, "plain": LocalFileSystem}[role]
        fsobj = fs(self, s) if role != "plain" else LocalFileSystem()
        cls = LocalHashFileDB if self.stores[s] == "local" else HashFileDB
        if self.state is not None and self.stores[s] == "local":
            config.setdefault("state", self.state)
        if self.alg != "md5":
            config.setdefault("hash_name", self.alg)
        # (the caller's spelling of the store path: plain, or with a trailing separator - a configured "cache/dir/")
        path = self.store_path(s) + (os.sep if self.store_spelling == "slash" else "")
        if self.store_spelling == "dotrel":
            os.chdir(self.root)          # (cases run one after another in a worker process)
            path = "." + os.sep + os.path.relpath(self.store_path(s), self.root)
        return cls(fsobj, path, **config)

    def use_real_state(self, warm: bool):
        """Share one real hash-state database between the local stores; `warm` records an entry for
        every object currently in them (so that later tampering meets an entry from before)."""
        from dvc_data.hashfile.hash import hash_file
        from dvc_data.hashfile.state import State

        self.state = State(root_dir=self.root, tmp_dir=os.path.join(self.root, "state"))
        if warm:
            fs = LocalFileSystem()
            for s, cls in self.stores.items():
                if cls != "local":
                    continue
                for x in self.uni.oids:
                    p = self.obj_path(s, x)
                    if os.path.isfile(p):
                        hash_file(p, fs, self.alg if self.alg.startswith("md5") else "md5", self.state)

    def close(self):
        if self.state is not None:
            self.state.close()
            self.state = None

    # ---- events ----------------------------------------------------------------
    def emit(self, act: dict, last: dict):
        obs = self.observe()
        self.events.append({"act": act, "last": last, **obs})

    def ids(self, hash_infos):
        return sorted(self.uni.model_id(h.value) for h in hash_infos)

    def path_model_id(self, s: str, path: str):
        root = self.store_path(s)
        rel = os.path.relpath(path, root)
        parts = rel.split(os.sep)
        if len(parts) == 2 and len(parts[0]) == 2:
            return self.uni.model_id(parts[0] + parts[1])
        return None


# the ways an upload can fail: the class of the exception must not matter
FAULT_KINDS = [
    lambda p: OSError(errno.EIO, "injected upload failure", p),
    lambda p: FileNotFoundError(errno.ENOENT, "injected: remote says not found", p),
    lambda p: PermissionError(errno.EACCES, "injected: permission denied", p),
    lambda p: TimeoutError("injected: timed out"),
    lambda p: RuntimeError("injected: backend error"),
]


class FaultFS(LocalFileSystem):
    """Destination file system: every upload is one journalled, lock-protected step;
    uploads of objects in world.F raise EIO; the abort_at-th upload kills the run."""

    def __init__(self, world: World, store: str):
        super().__init__()
        self.world = world
        self.store = store

    def put_file(self, from_file, to_info, callback=None, size=None, **kwargs):
        w = self.world
        kw = dict(kwargs)
        if callback is not None:
            kw["callback"] = callback
        x = w.path_model_id(self.store, to_info)
        if x is None:
            return super().put_file(from_file, to_info, size=size, **kw)
        with w.lock:
            if w.abort_at is not None and w.nputs >= w.abort_at:
                raise Killed()
            w.nputs += 1
            if x in w.F:
                w.emit({"op": "Put", "x": x, "res": "fail"}, {"op": "put"})
                raise FAULT_KINDS[(w.fault_kind + w.nputs) % len(FAULT_KINDS)](to_info)
            try:
                super().put_file(from_file, to_info, size=size, **kw)
            except FileNotFoundError:
                # the source does not hold the object after all (a stale source index promised it): a failed upload
                w.emit({"op": "Put", "x": x, "res": "fail"}, {"op": "put"})
                raise
            w.emit({"op": "Put", "x": x, "res": "ok"}, {"op": "put"})


class JournalFS(LocalFileSystem):
    """Source file system: reading a directory object while a transfer runs is the
    `for dir_hash in dir_ids` step of _do_transfer."""

    def __init__(self, world: World, store: str):
        super().__init__()
        self.world = world
        self.store = store

    def open(self, path, mode="r", **kwargs):
        w = self.world
        if w.xfer_active and "r" in mode:
            x = w.path_model_id(self.store, path)
            if x is not None and x in w.uni.dirs:
                with w.lock:
                    w.emit({"op": "Pick", "d": x}, {"op": "pick"})
        return super().open(path, mode, **kwargs)


def fresh_root(prefix="world-") -> str:
    from . import tlc

    return tlc.scratch_dir(prefix)


def rmtree(path: str):
    def onerr(func, p, exc):
        try:
            os.chmod(os.path.dirname(p), 0o755)
            os.chmod(p, 0o644)
            func(p)
        except OSError:
            pass

    shutil.rmtree(path, onerror=onerr)
