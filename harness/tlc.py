"""Thin, total wrapper around TLC / SANY.

Every function returns data; nothing here decides a property.  A TLC run that
cannot be interpreted raises MachineryError (exit code 2 in the checks).
"""
from __future__ import annotations

import json
import os
import re
import shutil
import subprocess
import tempfile
import time
from dataclasses import dataclass, field
from pathlib import Path

from . import tlaparse

VERIF = Path(__file__).resolve().parent.parent
SPECS = VERIF / "specs"
JAR = "/opt/veriftools/tla/tla2tools.jar:/opt/veriftools/tla/CommunityModules-deps.jar"


class MachineryError(RuntimeError):
    pass


@dataclass
class TlcResult:
    ok: bool  # TLC finished without invariant/property violation or error
    generated: int = 0
    distinct: int = 0
    depth: int = 0
    wall_s: float = 0.0
    actions: dict = field(default_factory=dict)  # action -> (distinct, total)
    printed: list = field(default_factory=list)  # parsed PrintT values
    violated: str | None = None  # name of violated invariant / property
    error: str | None = None
    stdout: str = ""
    cmd: str = ""


def scratch_dir(prefix="verif-") -> str:
    base = "/dev/shm" if os.access("/dev/shm", os.W_OK) else tempfile.gettempdir()
    return tempfile.mkdtemp(prefix=prefix, dir=base)


def sany(module: str) -> None:
    """Parse one module (path relative to specs/ or absolute)."""
    p = Path(module)
    if not p.is_absolute():
        p = SPECS / module
    r = subprocess.run(
        ["java", f"-DTLA-Library={SPECS}", "-cp", JAR, "tla2sany.SANY", p.name],
        cwd=p.parent,
        capture_output=True,
        text=True,
        env={**os.environ, "TLA_PATH": str(SPECS)},
    )
    out = r.stdout + r.stderr
    if r.returncode != 0 or "Semantic errors" in out or "***Parse Error***" in out or "Fatal errors" in out:
        raise MachineryError(f"SANY failed on {p}:\n{out[-3000:]}")


_RE_STATES = re.compile(r"(\d+) states generated, (\d+) distinct states found")
_RE_DEPTH = re.compile(r"depth of the complete state graph search is (\d+)")
_RE_ACT = re.compile(r"^<(\w+) line \d+, col \d+ to line \d+, col \d+ of module (\w+)>: (\d+):(\d+)")
_RE_INV = re.compile(r"Invariant (\S+) is violated")
_RE_PROP = re.compile(r"(?:Action property|Temporal properties|property) (\S+)? ?(?:is|were) violated")


def run_tlc(
    module: str,
    cfg: str,
    *,
    workers: int | str = "auto",
    cwd: Path | None = None,
    env: dict | None = None,
    coverage: bool = True,
    deadlock: bool = False,
    timeout: int = 1800,
    extra: list[str] | None = None,
    java_opts: list[str] | None = None,
    depth_first: bool = False,
) -> TlcResult:
    """Run TLC on specs/<module>.tla with specs/<cfg> (or absolute paths)."""
    cwd = Path(cwd) if cwd else SPECS
    meta = scratch_dir("tlcmeta-")
    jopts = ["-XX:+UseParallelGC", "-Xss16m", f"-DTLA-Library={SPECS}"] + (java_opts or [])
    if depth_first:
        jopts.append("-Dtlc2.tool.queue.IStateQueue=StateDeque")
    cmd = ["java", *jopts, "-cp", JAR, "tlc2.TLC", "-metadir", meta, "-noGenerateSpecTE",
           "-workers", str(workers), "-config", cfg]
    if coverage:
        cmd += ["-coverage", "1"]
    if not deadlock:
        cmd += ["-deadlock"]
    cmd += extra or []
    cmd += [module]
    e = {**os.environ, **(env or {})}
    t0 = time.time()
    try:
        r = subprocess.run(cmd, cwd=cwd, capture_output=True, text=True, env=e, timeout=timeout)
    except subprocess.TimeoutExpired as exc:
        shutil.rmtree(meta, ignore_errors=True)
        raise MachineryError(f"TLC timeout after {timeout}s: {' '.join(cmd)}") from exc
    finally:
        shutil.rmtree(meta, ignore_errors=True)
    out = r.stdout + "\n" + r.stderr
    res = TlcResult(ok=False, stdout=out, cmd=" ".join(cmd), wall_s=time.time() - t0)
    for m in _RE_STATES.finditer(out):
        res.generated, res.distinct = int(m.group(1)), int(m.group(2))
    m = _RE_DEPTH.search(out)
    if m:
        res.depth = int(m.group(1))
    for line in out.splitlines():
        m = _RE_ACT.match(line)
        if m:
            res.actions[m.group(1)] = (int(m.group(3)), int(m.group(4)))
    res.printed = parse_printed(out)
    m = _RE_INV.search(out)
    if m:
        res.violated = m.group(1)
    elif "is violated" in out or "violated" in out and "Error:" in out:
        m2 = re.search(r"Error: (.*violated.*)", out)
        res.violated = m2.group(1) if m2 else "unknown"
    if "Model checking completed. No error has been found." in out or (
        "Finished in" in out and "Error:" not in out and res.violated is None
    ):
        res.ok = res.violated is None
    else:
        if res.violated is None:
            m3 = re.search(r"Error: (.*)", out)
            res.error = (m3.group(1) if m3 else "TLC did not complete") + "\n" + out[-2500:]
    return res


def parse_printed(out: str) -> list:
    """Collect values printed by PrintT (one per line, tuples <<...>>)."""
    vals = []
    buf = None
    depth = 0
    for line in out.splitlines():
        s = line.strip()
        if buf is None:
            if s.startswith("<<\"") or s.startswith("<< \""):
                buf = s
                depth = s.count("<<") - s.count(">>")
            else:
                continue
        else:
            buf += " " + s
            depth += s.count("<<") - s.count(">>")
        if depth <= 0:
            try:
                vals.append(tlaparse.parse(buf))
            except tlaparse.ParseError:
                pass
            buf = None
    return vals


def simulate(
    module: str,
    cfg: str,
    *,
    num: int,
    depth: int,
    seed: int,
    cwd: Path | None = None,
    env: dict | None = None,
    timeout: int = 600,
) -> list[list[tuple[str | None, dict]]]:
    """Run `tlc -simulate` and return the behaviours (lists of (action, state))."""
    cwd = Path(cwd) if cwd else SPECS
    meta = scratch_dir("tlcsim-")
    prefix = os.path.join(meta, "tr")
    cmd = ["java", "-XX:+UseParallelGC", f"-DTLA-Library={SPECS}", "-cp", JAR, "tlc2.TLC", "-metadir", meta,
           "-noGenerateSpecTE", "-workers", "1", "-deadlock", "-config", cfg,
           "-simulate", f"file={prefix},num={num}", "-depth", str(depth), "-seed", str(seed), module]
    try:
        r = subprocess.run(cmd, cwd=cwd, capture_output=True, text=True,
                           env={**os.environ, **(env or {})}, timeout=timeout)
        out = r.stdout + r.stderr
        files = sorted(Path(meta).glob("tr_*"), key=lambda p: [int(x) for x in re.findall(r"\d+", p.name)])
        if not files:
            raise MachineryError(f"simulate produced no behaviours:\n{out[-2000:]}")
        behs = []
        for f in files:
            behs.append(tlaparse.parse_sim_file(f.read_text()))
        return behs
    except subprocess.TimeoutExpired as exc:
        raise MachineryError("TLC simulate timeout") from exc
    finally:
        shutil.rmtree(meta, ignore_errors=True)


def write_json(path: str | Path, data) -> None:
    with open(path, "w") as f:
        json.dump(data, f, separators=(",", ":"), sort_keys=True)
