"""C08 - index diff.  Spec: specs/IndexDiff.tla.

spec -> code : TLC enumerates every well-formed index over the key universe (GenIndexDiff.tla); pairs of
               them x option sets are executed through the real index.diff.diff (in-memory and SQLite-backed
               indexes, either side possibly None);
code -> spec : every observed change list is validated by TLC against the BFS model (conformance) and the
               C08 predicates (verdict), including swap symmetry and rename pairing.
"""
from __future__ import annotations

import hashlib
import itertools
import json
import os
import random
import shutil
from multiprocessing import get_context

from .. import core, tlc, validate

PROP = "C08"


def _md5(s: str) -> str:
    return hashlib.md5(s.encode()).hexdigest()


def _sig_hash(j: dict, k: str) -> str:
    """Concrete directory hash: a function of the (descendant file key, hash) pairs."""
    items = sorted((c, e["h"]) for c, e in j.items() if c.startswith(k + "/") and e["m"] not in ("-", "d"))
    return _md5("dir:" + json.dumps(items)) + ".dir"


def build_index(j: dict, backend: str, path: str | None, empty: int = 0):
    """empty: how "no hash" is spelled - 0: None, 1: HashInfo(), 2: HashInfo("md5", None) (what loading a directory object
    whose entries lack the store's algorithm gives): all three mean the same."""
    from dvc_data.hashfile.hash_info import HashInfo
    from dvc_data.hashfile.meta import Meta
    from dvc_data.index import DataIndex, DataIndexEntry

    idx = DataIndex.open(path) if backend == "sqlite" else DataIndex()
    for k, e in j.items():
        if e["m"] == "-":
            continue
        key = tuple(k.split("/"))
        meta = {"none": None, "d": Meta(isdir=True), "f1": Meta(size=1), "f2": Meta(size=2, isexec=True),
                "f3": Meta(size=1, etag="E1"), "f4": Meta(size=9, etag="E1")}[e["m"]]
        if e["h"] == "none":
            hi = (None, HashInfo(), HashInfo("md5", None))[empty]
        elif e["h"] == "D":
            hi = HashInfo("md5", _sig_hash(j, k))
        else:
            hi = HashInfo("md5", _md5("file:" + e["h"]))
        idx[key] = DataIndexEntry(key=key, meta=meta, hash_info=hi, loaded=True if e["m"] == "d" else None)
    if backend == "sqlite":
        idx.commit()
    return idx


def _changes(it):
    out = []
    for ch in it:
        if ch.typ == "rename":
            out.append(["rename", "/".join(ch.old.key), "/".join(ch.new.key)])
        else:
            out.append([ch.typ, "/".join(ch.key)])
    return out


def run_call(o, n, o_none, n_none, opts, backend, tmp):
    from dvc_data.index.diff import diff

    def mk(j, is_none, tag):
        if is_none:
            return None
        p = os.path.join(tmp, f"{tag}-{random.getrandbits(48):x}.db") if backend == "sqlite" else None
        return build_index(j, backend, p, empty={"o": opts.get("eo", 0), "n": opts.get("en", 0)}[tag])

    kw = dict(with_unchanged=opts["unchanged"], hash_only=opts["hash_only"], meta_only=opts["meta_only"],
              shallow=opts["shallow"])
    if opts.get("unknown"):
        # every directory of these indexes can be listed: asking for "unknown" labels changes nothing
        kw["with_unknown"] = True
    if opts.get("key", "none") == "cks":
        # the key the library's own push passes: the checksum field of the remote file system (here: etag)
        from functools import partial
        from types import SimpleNamespace

        from dvc_data.index.push import _meta_checksum

        kw["meta_cmp_key"] = partial(_meta_checksum, SimpleNamespace(PARAM_CHECKSUM="etag"))
    elif opts.get("key") == "mode":
        kw["meta_cmp_key"] = lambda meta: (meta.isdir, meta.isexec) if meta is not None else None

    def call(a, b, renames):
        if opts.get("view"):
            from dvc_data.index.view import view

            keep = lambda k: k[:1] == ("a",)  # noqa: E731 - a filter that does not accept the root key ()
            a = view(a, keep) if a is not None else None
            b = view(b, keep) if b is not None else None
        try:
            return _changes(diff(a, b, with_renames=renames, **kw))
        except Exception as exc:  # noqa: BLE001 - the exception is the observation
            return [["exception:" + type(exc).__name__, ""]]

    r = call(mk(o, o_none, "o"), mk(n, n_none, "n"), False)
    rswap = call(mk(n, n_none, "n"), mk(o, o_none, "o"), False)
    q = call(mk(o, o_none, "o"), mk(n, n_none, "n"), True) if opts["renames"] else []
    return {"opts": opts, "r": r, "q": q, "rswap": rswap}


def _work(args):
    jobs, seed = args
    import logging

    logging.disable(logging.CRITICAL)
    tmp = tlc.scratch_dir("c08-")
    try:
        recs = []
        for (o, n, o_none, n_none, optlist, backend) in jobs:
            calls = [run_call(o, n, o_none, n_none, op, backend, tmp) for op in optlist]
            recs.append({"o": o, "n": n, "o_none": o_none, "n_none": n_none, "backend": backend, "calls": calls})
        return recs
    finally:
        shutil.rmtree(tmp, ignore_errors=True)


def opt_sets():
    out = []
    for u, mode, sh, ren, key in itertools.product([False, True], ["entry", "hash", "meta"], [False, True], [False, True],
                                                   ["none", "mode", "cks"]):
        if ren and mode == "meta":
            continue  # diff() asserts: rename detection is not combined with meta_only
        if key != "none" and mode == "hash":
            continue  # the key function is not consulted when only hashes are compared
        out.append({"unchanged": u, "hash_only": mode == "hash", "meta_only": mode == "meta", "shallow": sh, "renames": ren,
                    "key": key, "unknown": False, "view": False})
        if key == "none":
            out.append({**out[-1], "unknown": True})
            # "no hash" spelled as an empty HashInfo object on one side or both
            out.append({**out[-2], "eo": 1 + len(out) % 2, "en": len(out) % 3})
            # both sides as filtered views (of an in-memory index)
            out.append({**out[-3], "view": True})
    return out


def generate():
    d = tlc.scratch_dir("gen-")
    out = os.path.join(d, "idx.json")
    try:
        tlc.sany("GenIndexDiff.tla")
        res = tlc.run_tlc("GenIndexDiff", "GenIndexDiff.cfg", workers=1, env={"GEN_OUT": out}, coverage=False)
        if not os.path.exists(out):
            raise tlc.MachineryError("index generation failed:\n" + res.stdout[-2000:])
        return json.load(open(out))
    finally:
        shutil.rmtree(d, ignore_errors=True)


def check(run: core.Run, replay=None):
    core.assert_repo_tree()
    quick = run.tier == "quick"
    rng = random.Random(run.seed)
    validate.run_design(run, "MC_IndexDiff", "IndexDiff_quick.cfg" if quick else "IndexDiff_thorough.cfg", workers=16,
                        required_actions=["Visit", "Finish"],
                        constants={"keys": "a, a/x" if quick else "a, a/x, a/y", "options": 12,
                                   "indexes": "every well-formed index (file/dir/implicit, hash set or not, meta set or not)"})
    gen = generate()
    indexes = sorted(gen["indexes"], key=lambda x: json.dumps(x, sort_keys=True))
    empty = {k: {"m": "-", "h": "-"} for k in gen["keys"]}
    opts = opt_sets()
    npairs = 6000 if quick else 60000
    jobs = []
    if replay:
        w = replay["witness"]
        jobs.append((w["o"], w["n"], w.get("o_none", False), w.get("n_none", False), opts, w.get("backend", "memory")))
    else:
        for t in range(npairs):
            o, n = rng.choice(indexes), rng.choice(indexes)
            if t % 7 == 0:
                n = dict(o)  # self-diff / near-identical pairs
                if t % 14 == 0:
                    k = rng.choice(gen["keys"])
                    n = rng.choice([i for i in indexes[:: max(1, len(indexes) // 200)]])
            o_none = t % 31 == 0
            n_none = t % 37 == 0
            backend = "sqlite" if t % 5 == 0 else "memory"
            sub = rng.sample(opts, 20) if t % 4 == 0 else rng.sample(opts, 3)
            jobs.append((empty if o_none else o, empty if n_none else n, o_none, n_none, sub, backend))
    nproc = 16
    chunks = [(jobs[k::nproc * 4], run.seed) for k in range(nproc * 4)]
    with get_context("fork").Pool(nproc) as pool:
        recs = [r for part in pool.map(_work, [c for c in chunks if c[0]]) for r in part]
    doc_recs = [{"o": r["o"], "n": r["n"], "calls": r["calls"]} for r in recs]

    # shard: each shard is a full document
    import concurrent.futures as cf

    tdir = tlc.SPECS / "trace"
    tlc.sany(str(tdir / "IndexDiffTrace.tla"))
    work = tlc.scratch_dir("c08v-")
    shards = min(16, max(1, len(doc_recs) // 50))
    bounds = [(k * len(doc_recs) // shards, (k + 1) * len(doc_recs) // shards) for k in range(shards)]

    def one(k):
        lo, hi = bounds[k]
        f = os.path.join(work, f"t{k}.json")
        tlc.write_json(f, {"keys": gen["keys"], "parent": gen["parent"], "recs": doc_recs[lo:hi]})
        res = tlc.run_tlc("IndexDiffTrace", str(tdir / "IndexDiffTrace.cfg"), workers=1, cwd=tdir,
                          env={"TRACE_FILE": f}, coverage=False)
        if not res.ok:
            raise tlc.MachineryError(f"trace validation failed: {res.violated} {res.error}\n{res.stdout[-2500:]}")
        return [(v[0], v[1], v[2], v[3] + lo, v[4], v[5]) for v in res.printed
                if isinstance(v, tuple) and len(v) == 6 and v[0] in ("VERDICT", "DIVERGENCE")], res

    try:
        with cf.ThreadPoolExecutor(max_workers=shards) as ex:
            results = list(ex.map(one, range(shards)))
    finally:
        shutil.rmtree(work, ignore_errors=True)
    ncalls = sum(len(r["calls"]) for r in recs)
    run.traces += len(recs)
    run.events += ncalls
    seen = set()
    for printed, _res in results:
        for tag, prop, clause, i, j, dev in printed:
            r = recs[i - 1]
            c = r["calls"][j - 1]
            wit = {"o": r["o"], "n": r["n"], "o_none": r["o_none"], "n_none": r["n_none"], "backend": r["backend"],
                   "opts": c["opts"], "r": c["r"], "q": c["q"], "rswap": c["rswap"]}
            if tag == "VERDICT":
                run.verdict(prop, clause, dev, wit)
            else:
                key = json.dumps([c["opts"], clause])
                if key not in seen:
                    seen.add(key)
                    run.divergence({"at": clause, **wit})
    run.extra.update({
        "rule": "pairs of TLC-generated well-formed indexes over keys a, a/x, a/y, b (files with/without hash and "
                "metadata, explicit / implicit / hashed directories, file on one side and directory on the other, "
                "either side None) x option sets (unchanged, hash_only, meta_only, shallow, renames); each pair also "
                "diffed swapped; in-memory and SQLite-backed indexes",
        "well_formed_indexes": len(indexes), "pairs": len(recs), "diff_calls": ncalls * 3,
        "validation_tlc_states": sum(r.distinct for _p, r in results),
    })
    run.assumptions += [
        "well-formed indexes: a key with children is a directory; a directory hash is a function of the (key, hash) "
        "pairs below it; a hashed directory contains only hashed files and no hashed sub-directory",
        "when both sides have an entry but hash or metadata is set on one side only, the table's label or plain "
        "'modify' is accepted",
        "`shallow` is not mentioned by the statement: keys below a hashed directory are out of scope in that mode",
    ]
    for r in recs[:3]:
        run.add_sample({"o": r["o"], "n": r["n"], "call": r["calls"][0]})
    return run.finish()
