"""C02 - stage -> store -> checkout round trip, both routes.  Spec: specs/RoundTrip.tla (composition of the
operations specified in TreeCanon, ObjectStore, Checkout and IndexCheckout).

spec -> code : every tree of the spec's universe (4 nested paths x {absent, empty, LF text, CRLF text}, duplicates
               included) x store class x link type x state on/off, concretised with odd names and an untracked empty
               directory, is staged, transferred, reloaded and checked out through the object route and the index route;
code -> spec : TLC compares the staged listing, counts, reloaded listing and both fresh locations with the source.
"""
from __future__ import annotations

import hashlib
import itertools
import json
import os
import random
import shutil
from multiprocessing import get_context

from .. import core, tlc, validate

# "s ü.a" is a file next to the directory "s ü"; "s" is a directory of files only whose name is a string prefix of its
# sibling directory "s ü" (which has a sub-directory)
NAMES = {"a": "s ü.a", "b": "b e\u0301.dir", "s/c": "s ü/c c", "s/t/d": "s ü/t/.d", "u/e": "s/e e"}
REV = {v: k for k, v in NAMES.items()}
CONTENTS = {"c0": b"", "c1": b"line one\nline two\n", "c2": b"crlf one\r\ncrlf two\r\n", "c3": b"LINE ONE\nline two\n"}
assert len(CONTENTS["c1"]) == 18 and len(CONTENTS["c2"]) == 20 and len(CONTENTS["c3"]) == 18
REVD = {hashlib.md5(b).hexdigest(): c for c, b in CONTENTS.items()}


def walk(root):
    files, extra = {}, []
    if os.path.islink(root) and not os.path.exists(root):
        return {"a": "other"}, []
    if os.path.isfile(root):
        with open(root, "rb") as fh:
            return {"a": REVD.get(hashlib.md5(fh.read()).hexdigest(), "other")}, []
    for r, ds, fs_ in os.walk(root):
        # directories that hold no file are not data: the object route drops them, the index route re-creates
        # them - the statement ("empty directories are not tracked") expects neither
        for f in fs_:
            fp = os.path.join(r, f)
            rel = os.path.relpath(fp, root)
            try:
                with open(fp, "rb") as fh:
                    c = REVD.get(hashlib.md5(fh.read()).hexdigest(), "other")
            except FileNotFoundError:     # a link whose target is not there: what the checkout left holds no bytes
                c = "other"
            if rel in REV:
                files[REV[rel]] = c
            else:
                extra.append(rel)
    return files, sorted(extra)


def run_case(case):
    import logging

    logging.disable(logging.CRITICAL)
    from dvc_objects.fs.local import LocalFileSystem

    from dvc_data.hashfile.build import build
    from dvc_data.hashfile.checkout import checkout
    from dvc_data.hashfile.db import HashFileDB
    from dvc_data.hashfile.db.local import LocalHashFileDB
    from dvc_data.hashfile.state import State
    from dvc_data.hashfile.transfer import transfer
    from dvc_data.hashfile.tree import Tree
    from dvc_data.index import ObjectStorage
    from dvc_data.index.build import build as ibuild
    from dvc_data.index.checkout import apply, compare
    from dvc_data.index.save import md5 as imd5
    from dvc_data.index.save import save as isave

    root = tlc.scratch_dir("c02-")
    state = None
    try:
        fs = LocalFileSystem()
        srcd = os.path.join(root, "src")
        single = case.get("single")
        if single:
            with open(srcd, "wb") as fh:
                fh.write(CONTENTS[case["src"]["a"]])
        else:
            os.makedirs(srcd)
            order = list(case["src"].items())
            random.Random(case["id"]).shuffle(order)
            for p, c in order:
                fp = os.path.join(srcd, *NAMES[p].split("/"))
                os.makedirs(os.path.dirname(fp), exist_ok=True)
                with open(fp, "wb") as fh:
                    fh.write(CONTENTS[c])
                os.utime(fp, ns=(1_680_000_000_123_456_789, 1_680_000_000_123_456_789))   # one mtime for all (an unpacked archive)
            os.makedirs(os.path.join(srcd, "empty dir", "nested empty"), exist_ok=True)  # not tracked
        cfg = {"type": [case["link"]]}
        if case["state"]:
            state = State(root_dir=root, tmp_dir=os.path.join(root, "state"))
            cfg["state"] = state
        sp = case.get("spelling", "plain")

        def spell(path):
            """The same location written the way the case says (files cannot take a trailing separator)."""
            if sp == "slash" and not os.path.isfile(path):
                return path + os.sep
            if sp == "rel":
                return os.path.relpath(path, os.path.dirname(root))   # always with a directory component (dvc_objects' link
                # probe cannot handle a bare file name as the target - outside this repository)
            return path

        if sp == "rel":
            os.chdir(os.path.dirname(root))
        cls = LocalHashFileDB if case["cls"] == "local" else HashFileDB
        odb = cls(fs, os.path.join(root, "cache"), **cfg)
        # ---- object route
        staging, meta, obj = build(odb, spell(srcd), fs, "md5")
        if case["id"] % 3 == 0:
            # first the default transfer (shallow: the directory object only), then the full one
            transfer(staging, odb, {obj.hash_info})
        transfer(staging, odb, {obj.hash_info}, shallow=False)
        if single:
            listing = {"a": REVD.get(obj.hash_info.value, "other")}
            reloaded = listing
            nfiles, size = 1, meta.size
        else:
            listing = {REV.get("/".join(k), "?" + "/".join(k)): REVD.get(hi.value, "other") for k, _m, hi in obj}
            reloaded = {REV.get("/".join(k), "?" + "/".join(k)): REVD.get(hi.value, "other") for k, _m, hi in Tree.load(odb, obj.hash_info)}
            nfiles, size = meta.nfiles, meta.size
        f1 = os.path.join(root, "fresh-object")
        raised = {}
        try:
            checkout(spell(f1), fs, obj if single else Tree.load(odb, obj.hash_info), odb, state=state)
        except Exception as exc:  # noqa: BLE001 - the library's failure is the observation (the walk tells what is there)
            raised["object"] = type(exc).__name__
        fresh = {"object": walk(f1) if os.path.lexists(f1) else ({}, [])}
        # ---- index route (directories)
        if not single:
            odb2 = cls(fs, os.path.join(root, "cache2"), **cfg)
            idx = imd5(ibuild(spell(srcd), fs), state=state)
            isave(idx, odb=odb2)
            idx.storage_map.add_cache(ObjectStorage((), odb2))
            f2 = os.path.join(root, "fresh-index")
            diff = compare(None, idx)
            try:
                apply(diff, spell(f2), fs, storage="cache", state=state)
            except Exception as exc:  # noqa: BLE001
                raised["index"] = type(exc).__name__
            fresh["index"] = walk(f2) if os.path.isdir(f2) else ({}, [])
            # ---- index route over a LAZY index: the whole tree is one unloaded entry pointing at the directory object,
            # expanded from object storage by compare()
            from dvc_data.hashfile.meta import Meta
            from dvc_data.index import DataIndex, DataIndexEntry

            lazy = DataIndex()
            lazy[("data",)] = DataIndexEntry(key=("data",), meta=Meta(isdir=True), hash_info=obj.hash_info)
            lazy.storage_map.add_cache(ObjectStorage((), odb))
            f3 = os.path.join(root, "fresh-lazy")
            try:
                apply(compare(None, lazy), spell(f3), fs, storage="cache", state=state)
            except Exception as exc:  # noqa: BLE001 - the library's failure is the observation (the walk tells what is there)
                raised["lazy"] = type(exc).__name__
            fresh["lazy"] = walk(os.path.join(f3, "data")) if os.path.isdir(os.path.join(f3, "data")) else ({}, [])
        second = None
        swap = case.get("swap")
        if swap and not single:
            # ---- second round (Restage): two files of equal size swapped by renaming, staged again into the same store
            # with the same state, checked out into another fresh location
            pa, pb = (os.path.join(srcd, *NAMES[x].split("/")) for x in swap)
            tmpn = pa + ".swap"
            os.rename(pa, tmpn)
            os.rename(pb, pa)
            os.rename(tmpn, pb)
            src2 = dict(case["src"])
            src2[swap[0]], src2[swap[1]] = case["src"][swap[1]], case["src"][swap[0]]
            staging2, meta2, obj2 = build(odb, spell(srcd), fs, "md5")
            transfer(staging2, odb, {obj2.hash_info}, shallow=False)
            listing2 = {REV.get("/".join(k), "?" + "/".join(k)): REVD.get(hi.value, "other") for k, _m, hi in obj2}
            reloaded2 = {REV.get("/".join(k), "?" + "/".join(k)): REVD.get(hi.value, "other") for k, _m, hi in Tree.load(odb, obj2.hash_info)}
            f4 = os.path.join(root, "fresh-object-2")
            raised2 = []
            try:
                checkout(spell(f4), fs, Tree.load(odb, obj2.hash_info), odb, state=state)
            except Exception as exc:  # noqa: BLE001
                raised2.append("object:" + type(exc).__name__)
            w4 = walk(f4) if os.path.isdir(f4) else ({}, [])
            second = {"src": src2, "staged": {"listing": listing2, "nfiles": int(meta2.nfiles or 0), "size": int(meta2.size or 0)},
                      "reloaded": reloaded2, "fresh": {"object": w4[0]}, "extra": {"object": w4[1]}, "raised": raised2,
                      "case": {**case, "round": 2}}
        return {"second": second, "src": case["src"], "staged": {"listing": listing, "nfiles": int(nfiles or 0), "size": int(size or 0)},
                "reloaded": reloaded, "fresh": {r: v[0] for r, v in fresh.items()},
                "extra": {r: v[1] for r, v in fresh.items()}, "raised": [f"{r}:{t}" for r, t in sorted(raised.items())],
                "case": case}
    finally:
        os.chdir("/")
        if state is not None:
            state.close()
        shutil.rmtree(root, ignore_errors=True)


def _work(cases):
    out = []
    for c in cases:
        try:
            out.append(run_case(c))
        except Exception:  # noqa: BLE001
            import traceback

            out.append({"harness_error": traceback.format_exc(), "case": c})
    return out


def check(run: core.Run, replay=None):
    core.assert_repo_tree()
    quick = run.tier == "quick"
    rng = random.Random(run.seed)
    validate.run_design(run, "MC_RoundTrip", "RoundTrip_quick.cfg", workers=4, required_actions=["Stage", "Transfer", "Reload", "Checkout"],
                        constants={"paths": list(NAMES), "contents": list(CONTENTS), "routes": ["object", "index", "lazy"]})
    if replay:
        cases = [replay["witness"]["case"]]
    else:
        trees = []
        for combo in itertools.product(["-", "c0", "c1", "c2"], repeat=4):   # (c3 appears in the swap cases below)
            t = {p: c for p, c in zip(NAMES, combo) if c != "-"}
            if t:
                trees.append(t)
        cfgs = [(cls, link, st) for cls in ("local", "generic") for link in ("copy", "hardlink", "symlink") for st in (False, True)]
        cases = []
        for i, t in enumerate(trees):
            for j, (cls, link, st) in enumerate(cfgs if not quick else [cfgs[(i + k) % len(cfgs)] for k in range(3)]):
                cases.append({"id": len(cases), "src": t, "cls": cls, "link": link, "state": st,
                              "spelling": ("plain", "slash", "rel")[(i + j) % 3]})
        # trees holding two files of equal size and different content: a second round after swapping them
        for a, b in itertools.permutations(NAMES, 2):
            for rest in ("-", "c2"):
                t = {a: "c1", b: "c3"}
                for o in NAMES:
                    if o not in t and rest != "-":
                        t[o] = rest
                for (cls, link, st) in cfgs:
                    cases.append({"id": len(cases), "src": t, "cls": cls, "link": link, "state": st, "spelling": "plain", "swap": [a, b]})
        for c in CONTENTS:
            for (cls, link, st) in cfgs:
                cases.append({"id": len(cases), "src": {"a": c}, "single": True, "cls": cls, "link": link, "state": st,
                              "spelling": ("plain", "rel")[len(cases) % 2]})
    with get_context("fork").Pool(16) as pool:
        recs = [r for part in pool.map(_work, [cases[k::64] for k in range(64) if cases[k::64]]) for r in part]
    errs = [r for r in recs if "harness_error" in r]
    if errs:
        raise tlc.MachineryError("harness error:\n" + errs[0]["harness_error"] + json.dumps(errs[0]["case"]))
    recs = recs + [r["second"] for r in recs if r.get("second")]      # the second round of a case is a record of its own
    doc = [{k: r[k] for k in ("src", "staged", "reloaded", "fresh", "extra", "raised")} for r in recs]
    printed, stats = validate.validate_traces("RoundTripTrace", "RoundTripTrace.cfg", doc, shards=8)
    run.traces += len(recs)
    run.events += 5 * len(recs)
    for v in printed:
        if isinstance(v, tuple) and len(v) == 6 and v[0] == "VERDICT":
            r = recs[v[3] - 1]
            run.verdict(v[1], v[2], v[5], {k: r[k] for k in ("src", "staged", "reloaded", "fresh", "extra", "raised", "case")})
    run.extra.update({"rule": "all 255 non-empty trees over 4 nested paths x {empty, LF, CRLF} contents (duplicates included), odd names "
                              "(non-ASCII, spaces, '.dir' suffix, leading dot), an untracked nested empty directory in every source, "
                              "plus single-file sources; source and target paths spelled plain / with a trailing separator / relative to the "
                              "working directory; store class x link type x state (3 of the 12 configurations per tree in quick, "
                              "all in thorough); object route and index route", "validation": stats, "exhaustive": not quick})
    run.assumptions += ["reflink unavailable on this file system: only its fall-back to copy is explored"]
    run.add_sample({k: recs[0][k] for k in ("src", "staged", "fresh", "case")})
    return run.finish()
