"""C01 C04 C06 C07 C11 C12 - object stores.  Spec: specs/ObjectStore.tla.

spec -> code : TLC evaluates the operation-level cases (GenObjectStore.tla) and random
               behaviours (-simulate); each is executed on real stores in a sandbox;
code -> spec : every step (one event per upload, per directory pick, per public call) is
               recorded with the full observed state and validated by TLC against
               ObjectStoreTrace.tla, which also evaluates the property predicates.
"""
from __future__ import annotations

import itertools
import json
import os
import random
import shutil
from multiprocessing import get_context

from .. import core, tlc, validate
from ..world import Killed, Universe, World, fresh_root, rmtree

FILES = ["f1", "f2", "f3"]
DIRS = {"d1": ["f1", "f2"], "d2": ["f2", "f3"]}
STORES = {"cache": "local", "remote": "generic"}


# --------------------------------------------------------------------------------------
# executing operation-level cases on the real code
# --------------------------------------------------------------------------------------
def _his(w: World, ids, name=None, named=False):
    his = [w.uni.hash_info(x, name or w.alg) for x in ids]
    if named:
        # the caller's ids carry display names (what dvc passes: obj_name is for messages, it identifies nothing)
        from dvc_data.hashfile.hash_info import HashInfo

        his = [HashInfo(h.name, h.value, obj_name=f"data/some dir/{x}") for h, x in zip(his, ids)]
    return his


def op_transfer(w: World, op: dict):
    from dvc_data.hashfile.transfer import transfer

    src, dst = op["src"], op["dst"]
    act = {"op": "TransferBegin", "src": src, "dst": dst, "req": sorted(op["req"]), "shallow": op["shallow"],
           "F": sorted(op.get("F", [])), "verify": bool(op.get("verify")), "idx": bool(op.get("idx"))}
    w.F = set(op.get("F", []))
    w.abort_at = op.get("abort")
    w.nputs = 0
    w.xfer_active = False
    began = {}
    index = w.open_index() if op.get("idx") and dst == w.idx_store else None
    src_index = w.open_index() if op.get("idx") and src == w.idx_store else None
    src_odb = w.odb(src, "src")
    dst_odb = w.odb(dst, "dst")

    def on_status(status):
        began["new"] = w.ids(status.new)
        w.emit(act, {"op": "xstatus", "new": w.ids(status.new), "missing": w.ids(status.missing)})
        w.xfer_active = True

    try:
        try:
            if op.get("via") == "index":
                if op.get("verify"):
                    # the index-level fetch takes `verify` from the configuration of the store it reads from
                    src_odb = w.odb(src, "src", verify=True)
                res = _index_push(w, op, src_odb, dst_odb, on_status)
            else:
                res = transfer(src_odb, dst_odb, set(_his(w, op["req"], named=bool(op.get("named")))), shallow=op["shallow"],
                               verify=bool(op.get("verify")), dest_index=index, src_index=src_index,
                               validate_status=on_status, jobs=op.get("jobs"))
        finally:
            w.xfer_active = False
            if index is not None:
                index.close()
            if src_index is not None:
                src_index.close()
    except Killed:
        w.emit({"op": "Abort"}, {"op": "abort"})
        return
    except Exception as exc:  # noqa: BLE001 - whatever the library raises is an observation for the specification to judge
        if not began:
            w.emit(act, {"op": "xstatus", "exc": type(exc).__name__})
        else:
            w.emit({"op": "TransferEnd"}, {"op": "transfer", "exc": type(exc).__name__, "transferred": [], "failed": []})
        return
    if "new" not in began:
        # the transfer returned without ever handing its status to the caller's validate_status - the one channel through
        # which objects missing on BOTH sides are reported
        w.emit(act, {"op": "xstatus", "new": w.ids(res.transferred), "missing": [], "silent": True})
        return
    if began.get("new"):
        w.emit({"op": "TransferEnd"},
               {"op": "transfer", "transferred": w.ids(res.transferred), "failed": w.ids(res.failed)})


def _index_push(w: World, op: dict, src_odb, dst_odb, on_status):
    """The same push asked through dvc_data.index.push: a data index whose entries are the requested directories (their
    files come from loading the directory objects out of the cache) and the requested files no directory lists; the cache
    and the remote are the index's storages.  What the index hands to transfer() is the closed request of the spec."""
    import dvc_data.index.push as ipush
    from dvc_data.hashfile.meta import Meta
    from dvc_data.index import DataIndex, DataIndexEntry, ObjectStorage

    idx = DataIndex()
    listed = {f for d in op["req"] if d in w.uni.dirs for f in w.uni.dirs[d]}
    for x in sorted(op["req"]):
        if x in w.uni.dirs:
            idx[(x,)] = DataIndexEntry(key=(x,), meta=Meta(isdir=True), hash_info=w.uni.hash_info(x, w.alg))
            if op.get("entries") == "explicit":
                # (an index that was loaded before - as the one dvc builds from its lock files - lists the files itself)
                for rel, f in w.uni.relpaths[x].items():
                    key = (x, *rel.split("/"))
                    idx[key] = DataIndexEntry(key=key, meta=Meta(), hash_info=w.uni.hash_info(f, w.alg))
                idx[(x,)].loaded = True
        elif x not in listed:
            idx[(x,)] = DataIndexEntry(key=(x,), meta=Meta(), hash_info=w.uni.hash_info(x, w.alg))
    fetching = op["src"] != "cache"      # the cache is the index's cache storage, the other store its data storage
    if fetching:
        import dvc_data.index.fetch as ipush  # noqa: F811 - same shape: fetch([idx]) calls the module's `transfer`

        idx.storage_map.add_cache(ObjectStorage((), dst_odb))
        idx.storage_map.add_data(ObjectStorage((), src_odb))
    else:
        idx.storage_map.add_cache(ObjectStorage((), src_odb))
        idx.storage_map.add_data(ObjectStorage((), dst_odb))
    got = {}
    real = ipush.transfer

    def spy(*a, **kw):
        theirs = kw.get("validate_status")

        def both(status):
            on_status(status)
            if theirs:
                theirs(status)

        kw["validate_status"] = both
        got["res"] = real(*a, **kw)
        return got["res"]

    ipush.transfer = spy
    try:
        (ipush.fetch if fetching else ipush.push)([idx], jobs=op.get("jobs"))
    finally:
        ipush.transfer = real
    return got["res"]


def op_add(w: World, op: dict):
    from dvc_objects.fs.local import LocalFileSystem

    from dvc_data.hashfile.build import build
    from dvc_data.hashfile.transfer import transfer

    odb = w.odb(op["s"])
    staging, _meta, obj = build(odb, w.ws_path(op["x"]), LocalFileSystem(), w.alg)
    res = transfer(staging, odb, {obj.hash_info}, shallow=False, hardlink=False)
    w.emit({"op": "AddObj", "s": op["s"], "x": op["x"]}, {"op": "add", "new": w.ids(res.transferred)})


def op_addmany(w: World, op: dict):
    """Several workspace items staged into ONE reference store and moved into the store together; every other item is
    staged from a copy of the workspace on a second file system (memfs), so the references span file systems."""
    import uuid

    from dvc_objects.fs.local import LocalFileSystem
    from dvc_objects.fs.memory import MemoryFileSystem

    from dvc_data.hashfile.build import build
    from dvc_data.hashfile.db.reference import ReferenceHashFileDB
    from dvc_data.hashfile.transfer import transfer

    odb = w.odb(op["s"])
    lfs, mfs = LocalFileSystem(), MemoryFileSystem()
    tag = uuid.uuid4().hex[:12]
    mroot = f"/verif-ws-{tag}"
    merged = ReferenceHashFileDB(MemoryFileSystem(), f"memory://verif-staging-{tag}", hash_name=w.alg)
    xs = list(op["xs"])   # staged in the order given
    act = {"op": "AddMany", "s": op["s"], "xs": sorted(xs)}
    ids = set()
    try:
        try:
            for i, x in enumerate(xs):
                path, fs = w.ws_path(x), lfs
                if i % 2 == 1:
                    fs = mfs
                    path = f"{mroot}/{x}"
                    mfs.fs.put(w.ws_path(x), path, recursive=os.path.isdir(w.ws_path(x)))
                staging, _meta, obj = build(odb, path, fs, w.alg)
                for oid, o in staging._obj_cache.items():
                    merged.add(o.path, o.fs, oid)
                ids.add(obj.hash_info)
            res = transfer(merged, odb, ids, shallow=False, hardlink=False)
        finally:
            if mfs.fs.exists(mroot):
                mfs.fs.rm(mroot, recursive=True)
    except Exception as exc:  # noqa: BLE001 - the library's error is the observation
        w.emit(act, {"op": "add", "exc": type(exc).__name__})
        return
    w.emit(act, {"op": "add", "new": w.ids(res.transferred)})


def op_index_elsewhere(w: World, op: dict):
    """Another remote's index under the same temporary directory records the given objects as pushed there."""
    from dvc_data.hashfile.db.index import ObjectDBIndex

    other = ObjectDBIndex(w.index_dir(), "another-remote")
    try:
        xs = list(op["xs"])
        other.update([w.uni.oid[x] for x in xs if x in w.uni.dirs], [w.uni.oid[x] for x in xs if x not in w.uni.dirs])
    finally:
        other.close()
    w.emit({"op": "IndexElsewhere", "xs": sorted(op["xs"])}, {"op": "elsewhere"})


def op_status(w: World, op: dict):
    from dvc_data.hashfile.status import status

    ro = bool(op.get("ro", False))
    odb = w.odb(op["s"], read_only=ro)
    index = w.open_index() if op.get("idx") and op["s"] == w.idx_store else None
    act = {"op": "Status", "s": op["s"], "ids": sorted(op["ids"]), "shallow": op["shallow"], "idx": bool(op.get("idx")), "ro": ro}
    try:
        try:
            r = status(odb, set(_his(w, op["ids"])), index=index, shallow=op["shallow"])
        finally:
            if index is not None:
                index.close()
    except Exception as exc:  # noqa: BLE001 - the exception type is the observation
        w.emit(act, {"op": "status", "exc": type(exc).__name__})
        return
    w.emit(act, {"op": "status", "exists": w.ids(r.exists), "missing": w.ids(r.missing)})


def op_cmpstatus(w: World, op: dict):
    from dvc_data.hashfile.status import compare_status

    a, b = w.odb(op["a"]), w.odb(op["b"])
    act = {"op": "CompareStatus", "a": op["a"], "b": op["b"], "ids": sorted(op["ids"]), "shallow": op["shallow"]}
    try:
        r = compare_status(a, b, set(_his(w, op["ids"])), check_deleted=True, shallow=op["shallow"])
    except Exception as exc:  # noqa: BLE001
        w.emit(act, {"op": "cmpstatus", "exc": type(exc).__name__})
        return
    w.emit(act, {"op": "cmpstatus", "ok": w.ids(r.ok), "missing": w.ids(r.missing), "new": w.ids(r.new),
                 "deleted": w.ids(r.deleted)})


def op_check(w: World, op: dict):
    ro = bool(op.get("ro", False))
    odb = w.odb(op["s"], read_only=ro)
    try:
        odb.check(w.uni.oid[op["o"]])
        res = "ok"
    except Exception as exc:  # noqa: BLE001 - the exception type is the observation
        res = type(exc).__name__
    w.emit({"op": "Check", "s": op["s"], "o": op["o"], "ro": ro}, {"op": "check", "res": res})


def op_gc(w: World, op: dict):
    from dvc_data.hashfile.gc import gc

    odb = w.odb(op["s"], read_only=bool(op.get("ro")))
    ord_ = op.get("ord", "used-first")
    # the foreign ids carry the very same values under another algorithm name (as the legacy md5-dos2unix ids of binary
    # files do next to their md5 ids)
    foreign = _his(w, op.get("foreign", []), name=("md5-dos2unix" if w.alg == "md5" else "md5", "sha256")[len(op["used"]) % 2])
    used = foreign + _his(w, op["used"]) if ord_ == "foreign-first" else _his(w, op["used"]) + foreign
    cs, cro = op.get("cs", op["s"]), bool(op.get("cro", False))
    cache_odb = w.odb(cs, read_only=cro) if cs != op["s"] else None
    act = {"op": "Gc", "s": op["s"], "used": sorted(op["used"]), "foreign": sorted(op.get("foreign", [])), "ord": ord_, "cs": cs, "cro": cro,
           "shallow": op["shallow"], "dry": op["dry"], "ro": bool(op.get("ro"))}
    try:
        n = gc(odb, used, shallow=op["shallow"], dry=op["dry"], cache_odb=cache_odb)
    except Exception as exc:  # noqa: BLE001
        w.emit(act, {"op": "gc", "exc": type(exc).__name__})
        return
    w.emit(act, {"op": "gc", "removed": int(n)})


def op_tamper(w: World, op: dict):
    if not os.path.lexists(w.obj_path(op["s"], op["o"])):
        return
    w.tamper(op["s"], op["o"], op.get("pat", "append"))
    w.emit({"op": "Tamper", "s": op["s"], "o": op["o"]}, {"op": "tamper"})


def op_extdel(w: World, op: dict):
    # external actions are the harness's own: when the transfer before it uploaded its objects in another order than the
    # generated behaviour assumed, the object to delete may not be there - then there is nothing to delete and no event
    if not os.path.lexists(w.obj_path(op["s"], op["o"])):
        return
    w.ext_delete(op["s"], op["o"])
    w.emit({"op": "ExtDelete", "s": op["s"], "o": op["o"]}, {"op": "extdel"})


OPS = {"Transfer": op_transfer, "AddObj": op_add, "AddMany": op_addmany, "IndexElsewhere": op_index_elsewhere, "Status": op_status, "CompareStatus": op_cmpstatus,
       "Check": op_check, "Gc": op_gc, "Tamper": op_tamper, "ExtDelete": op_extdel}


def run_case(case: dict, seed: int) -> dict:
    """Execute one operation-level case; returns the trace {init, events, case}."""
    import logging

    logging.disable(logging.CRITICAL)
    root = fresh_root("os-")
    try:
        alg = case.get("alg", "md5")
        uni = Universe(FILES, DIRS, seed=seed + case.get("useed", 0), pads=case.get("pads", 0), no_crlf=alg != "md5",
                       entry_key="md5" if alg.startswith("md5") else alg)
        w = World(root, uni, STORES, idx_store="remote")
        w.alg = alg
        w.store_spelling = case.get("ssp", "plain")
        w.reuse = bool(case.get("reuse"))
        init = {s: {x: st for x, st in objs.items() if st != "none"} for s, objs in case["init"].items()}
        w.setup(init)
        w.fault_kind = case.get("fk", 0)
        if case.get("state") in ("cold", "warm"):
            w.use_real_state(warm=case["state"] == "warm")
        obs0 = w.observe()
        try:
            for op in case["ops"]:
                OPS[op["op"]](w, op)
        finally:
            w.close()
        return {"init": {"store": obs0["store"], "ridx": obs0["ridx"]}, "events": w.events, "case": case}
    finally:
        rmtree(root)


def diversify(cases: list[dict]) -> list[dict]:
    """Concretisation choices the spec does not see: which exception class an injected failure has,
    which tamper pattern is used, whether the local stores share a real hash-state database and
    whether it already holds entries.  Deterministic in the case's position."""
    from ..world import FAULT_KINDS

    pats = World.TAMPER_PATTERNS
    for i, c in enumerate(cases):
        c.setdefault("fk", i % len(FAULT_KINDS))
        c.setdefault("state", ["noop", "warm", "cold"][i % 3])
        c.setdefault("useed", i % 3)
        k = i
        for op in c["ops"]:
            if op["op"] == "Tamper":
                op.setdefault("pat", pats[k % len(pats)])
                k += 1
    return cases


def _run_many(args):
    cases, seed = args
    out = []
    for c in cases:
        try:
            out.append(run_case(c, seed))
        except Exception as exc:  # noqa: BLE001
            import traceback

            out.append({"harness_error": traceback.format_exc(), "case": c})
    return out


def execute(cases: list[dict], seed: int, procs: int = 16) -> list[dict]:
    cases = diversify(cases)
    n = max(1, min(procs * 4, len(cases)))
    jobs = [(cases[k::n], seed) for k in range(n)]
    with get_context("fork").Pool(procs) as pool:
        parts = pool.map(_run_many, jobs)
    traces = [t for part in parts for t in part]
    errs = [t for t in traces if "harness_error" in t]
    if errs:
        raise tlc.MachineryError(f"{len(errs)} case(s) crashed the harness; first:\n{errs[0]['harness_error']}\ncase={errs[0]['case']}")
    return traces


# --------------------------------------------------------------------------------------
# case generation
# --------------------------------------------------------------------------------------
def tlc_generate(what: str = "xfer") -> dict:
    """Let TLC evaluate the case sets of GenObjectStore.tla (selected by `what`)."""
    d = tlc.scratch_dir("gen-")
    out = os.path.join(d, "gen.json")
    try:
        c = validate.cfg_with_known("GenObjectStore.cfg")
        tlc.sany("GenObjectStore.tla")
        res = tlc.run_tlc("GenObjectStore", c, workers=1, env={"GEN_OUT": out, "GEN_WHAT": what}, coverage=False)
        shutil.rmtree(os.path.dirname(c), ignore_errors=True)
        if not os.path.exists(out):
            raise tlc.MachineryError(f"case generation failed:\n{res.stdout[-2000:]}")
        return json.load(open(out))
    finally:
        shutil.rmtree(d, ignore_errors=True)


def xfer_op(c: dict, **over) -> dict:
    op = {"op": "Transfer", "src": c["src"], "dst": c["dst"], "req": c["req"], "shallow": c["shallow"],
          "idx": c["idx"], "F": c["F"]}
    op.update(over)
    return op


def stale_cases(rng: random.Random, limit: int, closed_only: bool = False) -> list[dict]:
    """TLC-generated histories around a stale remote index: indexed push, external deletion, indexed query / push, retry."""
    cases = []
    lists = {"d1": {"f1", "f2"}, "d2": {"f2", "f3"}}
    gen = tlc_generate("stale")["stale"]
    if closed_only:
        # C04 quantifies over closed requests: a directory listed with its files, or expanded by the transfer
        gen = [c for c in gen if c["kind"] == "transfer" and
               (not c["shallow"] or all(lists[d] <= set(c["ids"]) for d in c["ids"] if d in lists))]
    for c in _sample(gen, limit, rng):
        first = {"op": "Transfer", "src": "cache", "dst": "remote", "req": c["r1"], "shallow": c["sh1"], "idx": True, "F": []}
        # directory objects go first: a directory deleted together with (some of) its files leaves the remote closed
        ops = [first] + [{"op": "ExtDelete", "s": "remote", "o": o} for o in sorted(c["E"])]
        if c["kind"] == "status":
            ops.append({"op": "Status", "s": "remote", "ids": c["ids"], "shallow": c["shallow"], "idx": True})
            ops.append(first)
        elif len(cases) % 3 == 2:
            # fetch: the cache is emptied, then the request is fetched back through the remote's (stale) index
            back = {"op": "Transfer", "src": "remote", "dst": "cache", "req": c["ids"], "shallow": c["shallow"], "idx": True, "F": []}
            ops += [{"op": "Gc", "s": "cache", "used": [], "foreign": [], "ord": "used-first", "shallow": True, "dry": False, "ro": False,
                     "cs": "cache", "cro": False}, back, back]
        else:
            again = {"op": "Transfer", "src": "cache", "dst": "remote", "req": c["ids"], "shallow": c["shallow"], "idx": True, "F": []}
            ops += [again, again]
        ops.append({"op": "Status", "s": "remote", "ids": c["r1"], "shallow": False, "idx": True})
        cases.append({"init": c["init"], "ops": ops, "kind": "stale", "useed": len(cases) % 3})
    return cases


def index_push_cases(rng: random.Random, limit: int) -> list[dict]:
    """Pushes asked through a data index (dvc_data.index.push) from a partially filled cache, and their retry."""
    cases = []
    for c in _sample(tlc_generate("ipush")["ipush"], limit, rng):
        how = ("lazy", "explicit")[len(cases) % 2]
        first = xfer_op(c, via="index", entries=how)
        cases.append({"init": c["init"], "ops": [first, xfer_op(c, via="index", entries=how, F=[])], "kind": "index-push",
                      "useed": len(cases) % 3})
    return cases


def staging_cases() -> list[dict]:
    """Several workspace items moved into a store out of one staging store whose references span two file systems."""
    cases = []
    roots = ["d1", "d2", "f1", "f2", "f3"]
    for s in STORES:
        fresh = "ok_p" if STORES[s] == "local" else "ok_u"
        for have in ([], ["f2"], ["d1", "f1", "f2"], ["f1", "f3"]):
            for n in (2, 3):
                for xs in itertools.combinations(roots, n):
                    for order in (list(xs), list(reversed(xs))):
                        cases.append({"init": {s: {x: fresh for x in have}}, "ops": [{"op": "AddMany", "s": s, "xs": order}],
                                      "kind": "staging", "useed": len(cases) % 3})
    return cases


def index_elsewhere_cases() -> list[dict]:
    """Another remote's index (same temporary directory) holds objects this remote never received: indexed queries of and
    pushes to this remote must not see them."""
    cases = []
    allo = FILES + list(DIRS)
    for X in (allo, ["d1", "f1", "f2"]):
        for have in ([], ["f3"], ["d2", "f2", "f3"]):
            init = {"cache": {x: "ok_p" for x in allo}, "remote": {x: "ok_u" for x in have}}
            for ids in (["d1", "f1", "f2"], ["f1"], ["d1", "d2", "f1", "f2", "f3"], ["d1"]):
                for shallow in (True, False):
                    first = {"op": "IndexElsewhere", "xs": X}
                    cases.append({"init": init, "kind": "index-elsewhere", "useed": len(cases) % 3,
                                  "ops": [first, {"op": "Status", "s": "remote", "ids": ids, "shallow": shallow, "idx": True}]})
                    push = {"op": "Transfer", "src": "cache", "dst": "remote", "req": ids, "shallow": shallow, "idx": True, "F": []}
                    cases.append({"init": init, "kind": "index-elsewhere", "useed": len(cases) % 3,
                                  "ops": [first, push, {"op": "Status", "s": "remote", "ids": ids, "shallow": False, "idx": False}]})
    return cases


def handle_reuse_cases() -> list[dict]:
    """Long-lived store handles: one handle writes, objects arrive through another handle, the first one is asked."""
    cases = []
    allo = FILES + list(DIRS)
    for s, other in (("cache", "remote"), ("remote", "cache")):
        fresh = "ok_p" if other == "cache" else "ok_u"
        for first in ("f1", "f3", "d1"):
            for req in (["f2", "f3"], ["d2", "f2", "f3"], ["f1", "f2", "f3"]):
                for useed in (0, 1, 2):
                    ops = [{"op": "AddObj", "s": s, "x": first},
                           {"op": "Transfer", "src": other, "dst": s, "req": req, "shallow": True, "idx": False, "F": []},
                           {"op": "Status", "s": s, "ids": allo, "shallow": True, "idx": False},
                           {"op": "CompareStatus", "a": other, "b": s, "ids": allo, "shallow": True}]
                    cases.append({"init": {other: {x: fresh for x in allo}, s: {}}, "ops": ops, "kind": "handle-reuse", "reuse": True,
                                  "useed": useed})
    return cases


def damaged_local_cases() -> list[dict]:
    """The local store holds an unprotected object whose bytes do not match its name (an interrupted write, an edit through
    a link) - as the destination of a fetch and as the source of a push, closed requests, shallow and expanded."""
    cases = []
    allo = FILES + list(DIRS)
    reqs = [["d1", "f1", "f2"], ["d2", "f2", "f3"], ["d1", "d2", "f1", "f2", "f3"], ["f1"], ["f3"]]
    for bad in FILES:
        for req in reqs:
            for shallow in (True, False):
                # fetch: the remote is complete, the cache holds a damaged copy of one file (and nothing else, or everything)
                for have in ([bad], allo):
                    cache = {x: ("bad_u" if x == bad else "ok_p") for x in have}
                    cases.append({"init": {"remote": {x: "ok_u" for x in allo}, "cache": cache},
                                  "ops": [{"op": "Transfer", "src": "remote", "dst": "cache", "req": req, "shallow": shallow, "idx": False, "F": []}],
                                  "kind": "damaged-dst", "useed": len(cases) % 3})
                # push: the cache is complete but for one damaged file
                cases.append({"init": {"cache": {x: ("bad_u" if x == bad else "ok_p") for x in allo}, "remote": {}},
                              "ops": [{"op": "Transfer", "src": "cache", "dst": "remote", "req": req, "shallow": shallow, "idx": False, "F": []}],
                              "kind": "damaged-src", "useed": len(cases) % 3})
    return cases


def transfer_cases(gen: dict, rng: random.Random, quick: bool) -> list[dict]:
    """From every TLC-generated (init, request, mode, failing set): the faulty run followed by a
    fault-free retry, and the same with the run killed before its k-th upload for every k."""
    cases = []
    for kind in ("push", "fetch"):
        lst = gen[kind]
        for c in lst:
            named = len(cases) % 4 == 1   # every fourth case asks with ids that carry display names
            extra = {}
            if c["shallow"] and not c["idx"] and len(cases) % 4 == 2:
                # ... and every fourth shallow one is asked through a data index (dvc_data.index.push / fetch)
                extra = {"via": "index", "entries": ("lazy", "explicit")[len(cases) % 8 // 4]}
            first = xfer_op(c, named=named, **extra)
            retry = xfer_op(c, F=[], named=named, **extra)
            useed = len(cases) % 3  # vary the concrete contents, hence the code's own iteration orders
            # every fifth case runs on stores of the legacy algorithm (both sides, as a DVC 2.x cache and remote are)
            alg = "md5-dos2unix" if len(cases) % 5 == 3 else "md5"
            cases.append({"init": c["init"], "ops": [first, retry], "kind": kind, "useed": useed, "alg": alg})
            nmax = len(c["req"]) + 2
            ks = range(nmax) if (not quick or rng.random() < 0.34) else []
            for k in ks:
                cases.append({"init": c["init"], "ops": [xfer_op(c, abort=k, named=named, **extra), retry], "kind": kind + "-abort",
                              "useed": useed, "alg": alg})
    return cases


def sim_cases(cfg: str, num: int, depth: int, seed: int) -> list[dict]:
    """Random behaviours of the design spec (tlc -simulate) reduced to their operation-level
    actions: the internal steps of a transfer (Pick/Put/TransferEnd) are the code's own business
    and are checked by trace validation; an Abort becomes `kill before the k-th upload`."""
    from ..tlaparse import to_json

    c = validate.cfg_with_known(cfg)
    try:
        behs = tlc.simulate("MC_ObjectStore", c, num=num, depth=depth, seed=seed)
    finally:
        shutil.rmtree(os.path.dirname(c), ignore_errors=True)
    cases = []
    for beh in behs:
        init = to_json(beh[0][1]["store"])
        ops, cur, nput = [], None, 0
        for _label, st in beh[1:]:
            a = to_json(st["act"])
            k = a["op"]
            if k == "TransferBegin":
                cur = {"op": "Transfer", "src": a["src"], "dst": a["dst"], "req": a["req"], "shallow": a["shallow"],
                       "idx": a["idx"], "F": a["F"], "verify": a["verify"]}
                ops.append(cur)
                nput = 0
            elif k == "Put":
                nput += 1
            elif k == "Abort":
                if cur is not None:
                    cur["abort"] = nput
                cur = None
            elif k in ("Pick", "TransferEnd"):
                pass
            else:
                a2 = dict(a)
                ops.append(a2)
        if ops:
            cases.append({"init": init, "ops": ops, "kind": "sim:" + cfg})
    return cases


# --------------------------------------------------------------------------------------
# validation + classification
# --------------------------------------------------------------------------------------
def universe_doc(pads=0):
    u = Universe(FILES, DIRS, seed=0, pads=pads).describe()
    u.update({"stores": sorted(STORES), "class": STORES, "idx": "remote"})
    return u


def many_oids_cases(rng: random.Random, n: int) -> list[dict]:
    """Generic store padded with 12 objects under prefix 00 (estimated size 3072): a query of 2-3 ids
    goes object by object, a query of everything traverses the store."""
    pads = [f"p{i + 1}" for i in range(12)]
    cases = []
    for _ in range(n):
        have = set(pads) | {x for x in FILES + list(DIRS) if rng.random() < 0.5}
        init = {"remote": {x: "ok_u" for x in have}, "cache": {}}
        small = rng.sample(FILES + list(DIRS) + pads[:3], rng.choice([2, 3]))
        big = FILES + list(DIRS) + pads
        ops = [{"op": "Status", "s": "remote", "ids": small, "shallow": True, "idx": False},
               {"op": "Status", "s": "remote", "ids": big, "shallow": True, "idx": False},
               {"op": "CompareStatus", "a": "cache", "b": "remote", "ids": small, "shallow": True}]
        cases.append({"init": init, "ops": ops, "kind": "many-oids", "pads": 12})
    return cases


def tamper_matrix() -> list[dict]:
    """C07's quantifier spelled out: every tamper pattern x hash-state cache (none / cold / holding an entry
    from before the tampering) x store class x the query that meets the tampered object."""
    full = {"cache": {x: "ok_p" for x in FILES + list(DIRS)}, "remote": {x: "ok_u" for x in FILES + list(DIRS)}}
    cases = []
    for s in STORES:
        other = "remote" if s == "cache" else "cache"
        for o in FILES:
            for pat in World.TAMPER_PATTERNS:
                for state in ("noop", "cold", "warm"):
                    followups = [
                        [{"op": "Check", "s": s, "o": o}],
                        [{"op": "Status", "s": s, "ids": [o, "d1"], "shallow": True, "idx": False}, {"op": "Check", "s": s, "o": o}],
                        [{"op": "CompareStatus", "a": s, "b": other, "ids": FILES, "shallow": True}],
                        [{"op": "Transfer", "src": s, "dst": other, "req": FILES + list(DIRS), "shallow": True, "idx": False, "F": []}],
                    ]
                    for fu in followups:
                        # every other case through a handle opened read-only
                        fu = [dict(x, ro=True) if x["op"] in ("Check", "Status") and len(cases) % 2 else x for x in fu]
                        cases.append({"init": full, "ops": [{"op": "Tamper", "s": s, "o": o, "pat": pat}] + fu,
                                      "kind": "tamper-matrix", "state": state})
        # ... stores of the legacy text-normalising algorithm: the tamper patterns that touch line ends
        for o in FILES:
            for pat in ("append_cr", "append", "same_len"):
                for state in ("noop", "warm"):
                    for useed in (0, 1, 2):
                        for fu in ([{"op": "Check", "s": s, "o": o}],
                                   [{"op": "Status", "s": s, "ids": [o], "shallow": True, "idx": False}, {"op": "Check", "s": s, "o": o}]):
                            cases.append({"init": full, "ops": [{"op": "Tamper", "s": s, "o": o, "pat": pat}] + fu,
                                          "kind": "tamper-legacy", "state": state, "alg": "md5-dos2unix", "useed": useed})
        # ... and a directory object edited so that it still parses (trailing white space), met by the queries that
        # read it: the check, the shallow and the expanding existence query, the source side of an expanding push
        for d in DIRS:
            for pat in ("append", "rename600"):
                for state in ("noop", "warm"):
                    req = [d] + sorted(DIRS[d])
                    for fu in ([{"op": "Check", "s": s, "o": d}],
                               [{"op": "Status", "s": s, "ids": [d], "shallow": False, "idx": False}, {"op": "Check", "s": s, "o": d}],
                               [{"op": "Status", "s": s, "ids": req, "shallow": True, "idx": False}],
                               [{"op": "Transfer", "src": s, "dst": other, "req": [d], "shallow": False, "idx": False, "F": []}]):
                        init = full if fu[0]["op"] != "Transfer" else {**full, other: {}}
                        cases.append({"init": init, "ops": [{"op": "Tamper", "s": s, "o": d, "pat": pat}] + fu,
                                      "kind": "tamper-dir", "state": state})
    return cases


def validate_and_classify(run: core.Run, traces: list[dict], shards=12):
    if not traces:
        raise tlc.MachineryError("no traces to validate")
    padded = [t for t in traces if t["case"].get("pads")]
    if padded and len(padded) != len(traces):
        validate_and_classify(run, [t for t in traces if not t["case"].get("pads")], shards)
        validate_and_classify(run, padded, 2)
        return
    npads = traces[0]["case"].get("pads", 0)
    doc_traces = [{"init": t["init"], "events": t["events"]} for t in traces]
    # shard manually: each shard is a full document with the universe
    n = len(doc_traces)
    shards = max(1, min(shards, n))
    import concurrent.futures as cf

    uni = universe_doc(npads)
    tdir = tlc.SPECS / "trace"
    tlc.sany(str(tdir / "ObjectStoreTrace.tla"))
    cfg = validate.cfg_with_known(tdir / "ObjectStoreTrace.cfg")
    work = tlc.scratch_dir("ostr-")
    bounds = [(k * n // shards, (k + 1) * n // shards) for k in range(shards)]

    def one(k):
        lo, hi = bounds[k]
        f = os.path.join(work, f"t{k}.json")
        tlc.write_json(f, {"universe": uni, "traces": doc_traces[lo:hi]})
        res = tlc.run_tlc("ObjectStoreTrace", cfg, workers=1, cwd=tdir, env={"TRACE_FILE": f}, coverage=False)
        if not res.ok:
            raise tlc.MachineryError(f"trace validation failed (shard {k}): violated={res.violated} "
                                     f"error={res.error}\n{res.stdout[-2500:]}")
        expect = sum(len(t["events"]) + 1 for t in doc_traces[lo:hi])
        deepest = max(len(t["events"]) + 1 for t in doc_traces[lo:hi])
        if res.distinct < expect or res.depth != deepest:
            raise tlc.MachineryError(f"trace validation did not consume every event: {res.distinct} states / depth "
                                     f"{res.depth} for {expect} events / depth {deepest} expected (shard {k})")
        return [(v[0], v[1], v[2], v[3] + lo, v[4], v[5]) for v in res.printed
                if isinstance(v, tuple) and len(v) == 6 and v[0] in ("VERDICT", "DIVERGENCE")], res

    try:
        with cf.ThreadPoolExecutor(max_workers=shards) as ex:
            results = list(ex.map(one, range(shards)))
    finally:
        shutil.rmtree(work, ignore_errors=True)
        shutil.rmtree(os.path.dirname(cfg), ignore_errors=True)
    run.traces += n
    run.events += sum(len(t["events"]) for t in traces)
    seen_div = set()
    for printed, _res in results:
        for tag, prop, clause, tid, l, dev in printed:
            t = traces[tid - 1]
            ev = t["events"][l - 1]
            wit = {"case": t["case"], "event_index": l, "act": ev["act"], "last": ev["last"], "store_after": ev["store"],
                   "ridx_after": ev["ridx"], "aliens": ev["aliens"]}
            if tag == "VERDICT":
                if t["case"].get("ssp") == "dotrel" and prop == "C06":
                    dev = [*dev, "F21"]     # the finding's signature is this very spelling of the store path
                run.verdict(prop, clause, dev, wit, replay={"module": "objectstore", "case": t["case"]})
            else:
                key = (clause, json.dumps(ev["act"], sort_keys=True))
                if key not in seen_div:
                    seen_div.add(key)
                    run.divergence({"at": clause, **wit})
    run.extra.setdefault("validation_tlc_states", 0)
    run.extra["validation_tlc_states"] += sum(r.distinct for _p, r in results)


# --------------------------------------------------------------------------------------
# the checks
# --------------------------------------------------------------------------------------
def design_xfer(run: core.Run):
    res = validate.run_design(
        run, "MC_ObjectStore", "ObjectStore_xfer_quick.cfg", workers=16,
        required_actions=["BeginAny", "Pick", "PutBound", "PutDir", "PutLoose", "TransferEnd", "Abort"],
        constants={"Files": FILES, "Dirs": DIRS, "Stores": STORES, "MaxFaults": 2, "MaxXfers": 2,
                   "init": "cache complete, remote every closed subset", "requests": "closed requests"})
    return res


def design_ops(run: core.Run):
    return validate.run_design(
        run, "MC_ObjectStore", "ObjectStore_ops_quick.cfg", workers=16,
        required_actions=["Status", "CompareStatus", "Gc", "Check"],
        constants={"Files": FILES, "Dirs": DIRS, "Stores": STORES,
                   "init": "one store with every mix of absent/intact/corrupt objects, the other empty or full",
                   "steps": "one public call from each initial state (action property StepPropsHold)"})


def _sample(lst, n, rng):
    return lst if len(lst) <= n else rng.sample(lst, n)


def _finish(run, traces, rule, assumptions):
    validate_and_classify(run, traces)
    for t in traces[:: max(1, len(traces) // 3)][:3]:
        run.add_sample({"case": t["case"], "events": [e["act"] for e in t["events"]][:12]})
    run.extra["rule"] = rule
    run.assumptions += assumptions
    return run.finish()


def _replay_cases(replay):
    return [replay["replay"]["case"]]


def check_C04(run: core.Run, replay=None):
    core.assert_repo_tree()
    quick = run.tier == "quick"
    rng = random.Random(run.seed)
    if replay:
        cases = _replay_cases(replay)
    else:
        design_xfer(run)
        gen = tlc_generate("xfer")
        cases = transfer_cases(gen, rng, quick)
        cases += sim_cases("ObjectStore_sim_xfer.cfg", 150 if quick else 1500, 24, run.seed + 1)
        cases += stale_cases(rng, 400 if quick else 10**9, closed_only=True)
        cases += index_push_cases(rng, 300 if quick else 10**9)
        run.extra["generated_cases"] = {k: len(v) for k, v in gen.items()}
    traces = execute(cases, run.seed)
    return _finish(run, traces,
                   "every TLC-generated (initial stores, closed request, shallow/expanded, index on/off, failing subset "
                   "<= 2) transfer, its fault-free retry, and the same killed before its k-th upload; plus random "
                   "multi-transfer behaviours (tlc -simulate); C04 evaluated by TLC on the store observed after every "
                   "single upload",
                   ["uploads fail atomically (an injected failure leaves nothing at the object path)",
                    "abort = exception raised from the file-system call (real process kills are C15's)",
                    "destination not modified externally during the transfer"])


def check_C11(run: core.Run, replay=None):
    core.assert_repo_tree()
    quick = run.tier == "quick"
    rng = random.Random(run.seed)
    if replay:
        cases = _replay_cases(replay)
    else:
        design_xfer(run)
        gen = tlc_generate("c11quick" if quick else "c11")
        gx = tlc_generate("xfer")
        cases = []
        for c in _sample(gen["c11"], 1500 if quick else 10**9, rng):
            # (every third request carries display names on its ids)
            cases.append({"init": c["init"], "ops": [xfer_op(c, named=len(cases) % 3 == 1)], "kind": "c11", "useed": len(cases) % 3})
        for c in _sample(gen["verify"], 500 if quick else 10**9, rng):
            if c["shallow"] and len(cases) % 2:
                # the same fetch asked through a data index (dvc_data.index.fetch), the remote opened with verify=...
                cases.append({"init": c["init"], "ops": [xfer_op(c, verify=c["verify"], via="index", entries="explicit")],
                              "kind": "verify-index", "useed": len(cases) % 3})
                continue
            cases.append({"init": c["init"], "ops": [xfer_op(c, verify=c["verify"])], "kind": "verify",
                          "useed": len(cases) % 3})
        for c in gx["push"] + gx["fetch"]:
            cases.append({"init": c["init"], "ops": [xfer_op(c)], "kind": "xfer", "useed": len(cases) % 3})
        cases += sim_cases("ObjectStore_sim_xfer.cfg", 100 if quick else 1000, 24, run.seed + 2)
        cases += stale_cases(rng, 300 if quick else 10**9)
        cases += damaged_local_cases()
        cases += index_push_cases(rng, 200 if quick else 10**9)
        cases += staging_cases()
        run.extra["generated_cases"] = {**{k: len(v) for k, v in gen.items()}, **{k: len(v) for k, v in gx.items()}}
    traces = execute(cases, run.seed)
    return _finish(run, traces,
                   "TLC-generated transfers: source holding any subset (objects missing on both sides), destination any "
                   "closed subset, any request (closed or not), <= 1 failing upload; corrupt generic sources fetched "
                   "with and without verify; the C04 case set; random behaviours. C11 evaluated by TLC on result + "
                   "re-hashed stores at TransferEnd, on every upload (nothing re-sent, source untouched)",
                   ["every requested directory can be loaded from the source, otherwise the transfer refuses "
                    "(FileNotFoundError) before moving anything - a refusal, not a result",
                    "source 'never modified' is read as: every intact object keeps its bytes and no object appears; "
                    "dropping a corrupt unprotected object during a local existence query is demanded by C07"])


def check_C12(run: core.Run, replay=None):
    core.assert_repo_tree()
    quick = run.tier == "quick"
    rng = random.Random(run.seed)
    if replay:
        cases = _replay_cases(replay)
    else:
        design_ops(run)
        design_xfer(run)
        gen = tlc_generate("status")
        cases = []
        for c in _sample(gen["status"], 1500 if quick else 10**9, rng):
            ops = [{"op": "Status", "s": c["s"], "ids": c["ids"], "shallow": c["shallow"], "idx": False}]
            cases.append({"init": c["init"], "ops": ops, "kind": "status"})
        cases += sim_cases("ObjectStore_sim_idx.cfg", 400 if quick else 4000, 22, run.seed + 3)
        cases += sim_cases("ObjectStore_sim_status.cfg", 250 if quick else 2500, 8, run.seed + 4)
        cases += many_oids_cases(rng, 6 if quick else 40)
        cases += stale_cases(rng, 400 if quick else 10**9)
        cases += index_elsewhere_cases()
        cases += handle_reuse_cases()
        # indexed pushes from sources that lack some of the requested objects (files missing on both sides)
        partial = [c for c in tlc_generate("c11quick" if quick else "c11")["c11"] if c["idx"]]
        for c in _sample(partial, 600 if quick else 10**9, rng):
            cases.append({"init": c["init"], "ops": [xfer_op(c), xfer_op(c, F=[]),
                                                     {"op": "Status", "s": c["dst"], "ids": c["req"], "shallow": True, "idx": True}],
                          "kind": "partial-source", "useed": len(cases) % 3})
        run.extra["generated_cases"] = {k: len(v) for k, v in gen.items()}
    traces = execute(cases, run.seed)
    return _finish(run, traces,
                   "status() on every TLC-generated (store class, mix of absent/intact/corrupt objects, query, "
                   "shallow/expanded); compare_status and indexed status inside random behaviours of transfers (also "
                   "failed / aborted ones), external deletions and status queries sharing one remote index; the base "
                   "store's traversal strategy forced with a store of many objects",
                   ["memory-protocol staging stores are excluded (status.py answers 'exists' for them by design)",
                    "the index invariant is evaluated after library operations on stores without external deletion/gc"])


def check_C06(run: core.Run, replay=None):
    core.assert_repo_tree()
    quick = run.tier == "quick"
    rng = random.Random(run.seed)
    if replay:
        cases = _replay_cases(replay)
    else:
        design_ops(run)
        gen = tlc_generate("gc")
        cases = []
        for c in _sample(gen["gc"], 2500 if quick else 10**9, rng) + gen["gcvia"]:
            op = {"op": "Gc", "s": c["s"], "used": c["used"], "foreign": c["foreign"], "ord": c["ord"], "shallow": c["shallow"],
                  "dry": c["dry"], "ro": c["ro"], "cs": c["cs"], "cro": c["cro"]}
            cases.append({"init": c["init"], "ops": [op], "kind": "gc", "ssp": ("plain", "slash")[len(cases) % 3 == 1]})
            if c["s"] == "remote" and len(cases) % 4 == 0 and not c["foreign"]:
                # a store keyed by what a cloud reports about the file (hash_name "etag" / "checksum": the default of stores on
                # s3, gs, http): gc never hashes, the names are just names
                cases[-1]["alg"] = ("etag", "checksum")[len(cases) % 8 // 4]
        # F21 (open): the store path spelled "./store" - dvc_objects lists nothing there, gc removes nothing
        for c in [c for c in gen["gc"] if not c["ro"] and not c["dry"] and not c["foreign"] and c["cs"] == c["s"]][:: 97][:16]:
            op = {"op": "Gc", "s": c["s"], "used": c["used"], "foreign": [], "ord": c["ord"], "shallow": c["shallow"],
                  "dry": False, "ro": False, "cs": c["cs"], "cro": False}
            cases.append({"init": c["init"], "ops": [op], "kind": "gc-dotrel", "ssp": "dotrel"})
        cases += sim_cases("ObjectStore_sim_gc.cfg", 150 if quick else 1500, 10, run.seed + 5)
        run.extra["generated_cases"] = {k: len(v) for k, v in gen.items()}
    traces = execute(cases, run.seed)
    return _finish(run, traces,
                   "gc() on TLC-generated (store class, store contents as any subset, used set as any subset incl. ids "
                   "absent from the store, ids under a foreign hash name, shallow/expanding, dry/real, read-only handle); "
                   "plus gc inside random behaviours of adds and transfers",
                   ["when directories are to be expanded and a used directory object is absent from the store, gc "
                    "raises and removes nothing: accepted as a refusal (the files it protects are unknowable)"])


def check_C07(run: core.Run, replay=None):
    core.assert_repo_tree()
    quick = run.tier == "quick"
    rng = random.Random(run.seed)
    if replay:
        cases = _replay_cases(replay)
    else:
        design_ops(run)
        gen = tlc_generate("status")
        gv = tlc_generate("c11quick")
        cases = []
        for c in gen["check"]:
            for ro in (False, True):
                cases.append({"init": c["init"], "ops": [{"op": "Check", "s": c["s"], "o": c["o"], "ro": ro}], "kind": "check"})
        bad = [c for c in gen["status"] if any(v == "bad_u" for v in c["init"][c["s"]].values())]
        for c in _sample(bad, 1200 if quick else 10**9, rng):
            ro = len(cases) % 2 == 1
            ops = [{"op": "Status", "s": c["s"], "ids": c["ids"], "shallow": c["shallow"], "idx": False, "ro": ro},
                   {"op": "Check", "s": c["s"], "o": sorted(c["ids"])[0], "ro": ro}]
            cases.append({"init": c["init"], "ops": ops, "kind": "status+check"})
        for c in _sample(gv["verify"], 600 if quick else 10**9, rng):
            if c["shallow"] and len(cases) % 2:
                cases.append({"init": c["init"], "ops": [xfer_op(c, verify=c["verify"], via="index", entries=("explicit", "lazy")[len(cases) % 4 // 2])],
                              "kind": "verify-index"})
                continue
            cases.append({"init": c["init"], "ops": [xfer_op(c, verify=c["verify"])], "kind": "verify"})
        cases += tamper_matrix()
        cases += sim_cases("ObjectStore_sim.cfg", 300 if quick else 3000, 14, run.seed + 6)
        run.extra["generated_cases"] = {"check": len(gen["check"]), "status_with_corrupt": len(bad), "verify": len(gv["verify"])}
    if not replay:
        # checkout must refuse to materialise a corrupt object (Checkout.tla harness, C07 verdicts only)
        from . import checkoutobj

        gen_co = checkoutobj.generate()
        co_cases = [c for c in checkoutobj.make_cases(gen_co, rng, 1500 if quick else 12000, "C05")
                    if "bad" in c["init"]["cache"].values()]
        co_cases += checkoutobj.corrupt_between_cases()      # ... and objects damaged between two checkouts of one process
        checkoutobj.execute_and_validate(run, co_cases)
        run.extra["checkout_cases_with_corrupt_objects"] = len(co_cases)
    traces = execute(cases, run.seed)
    return _finish(run, traces,
                   "check()/status() on every TLC-generated store mix containing corrupt unprotected objects (both store "
                   "classes), verify-configured transfers from corrupt sources, random behaviours with tampering; "
                   "tampering rewrites bytes after chmod u+w and sets a distinguishable mtime explicitly",
                   ["a corrupt object that is also mode 0o444 is trusted by design (outside the statement: 'not write-protected')",
                    "checkout of a corrupt cache object: the Checkout.tla traces (prior workspaces x caches holding corrupt objects x targets) are validated here too and their C07 verdicts counted"])


def check_C01(run: core.Run, replay=None):
    core.assert_repo_tree()
    quick = run.tier == "quick"
    from . import multialg

    if replay and replay["replay"].get("module") == "multialg":
        multialg.check(run, replay=replay["replay"]["case"])
        return run.finish()
    if replay:
        cases = _replay_cases(replay)
    else:
        multialg.check(run)
        design_xfer(run)
        cases = sim_cases("ObjectStore_sim_honest.cfg", 500 if quick else 5000, 20, run.seed + 7)
        gx = tlc_generate("xfer")
        for c in gx["push"][::3] + gx["fetch"][::3]:
            cases.append({"init": c["init"], "ops": [xfer_op(c), xfer_op(c, F=[])], "kind": "xfer", "useed": len(cases) % 3})
        # a verifying transfer files nothing that does not match its name, whatever the source holds
        rng = random.Random(run.seed)
        for c in _sample([c for c in tlc_generate("c11quick")["verify"] if c["verify"]], 300 if quick else 10**9, rng):
            cases.append({"init": c["init"], "ops": [xfer_op(c, verify=True)], "kind": "verify", "useed": len(cases) % 3})
    traces = execute(cases, run.seed)
    return _finish(run, traces,
                   "random behaviours (tlc -simulate) of add / transfer (with failures, aborts) / gc / status / check "
                   "over a local and a generic store; after every step every object file of every store is re-hashed "
                   "with hashlib, .dir objects re-encoded canonically, modes read with lstat",
                   ["hash primitives injective on the data used", "no workspace edit between hashing and adding"])


check = check_C04
