"""C03 - canonical directory identifier.  Spec: specs/TreeCanon.tla.

spec -> code : random behaviours (tlc -simulate) of edit / build (cold, warm, partially warm hash-state
               cache; noop state) / sub-object, replayed on a real workspace directory whose files are created
               in random order, with varying hashing-thread counts and two files > 1 MiB in one directory
               (parallel, unordered hashing path); plus Tree.add in random orders with random metadata;
code -> spec : TLC validates every step: listing = contents, identifier = independent canonical encoding,
               parse(serialise) = identity, reload = listing, sub-object = direct build, no serialisation collision.
"""
from __future__ import annotations

import hashlib
import json
import os
import random
import shutil
from multiprocessing import get_context

from .. import core, tlc, validate
from ..tlaparse import to_json
from ..world import canonical_dir_bytes

# concrete names: a sibling of directory "s" and of directory "s/t" whose name is the directory's name plus a character
# that sorts before "/" - there the order of key tuples and the order of joined paths (the canonical one) differ
PATHS = {"a": "s.a", "b": "b e\u0301", "s/c": "s/t.c.dir", "s/t/d": "s/t/d d", "e": ".e"}
SUBDIRS = {"s": ["s/c", "s/t/d"], "s/t": ["s/t/d"]}
REV = {v: k for k, v in PATHS.items()}


def contents(seed):
    rng = random.Random(seed)
    # beyond the 1 MiB threshold (hashed in build()'s own thread pool), sizes far apart: ~4.4 MiB and ~1.1 MiB, so that the
    # pool does not finish them in listing order whichever way they are listed
    big = lambda tag, n: (tag.encode() + bytes(rng.randrange(256) for _ in range(1024))) * n  # noqa: E731
    # c3 has the size of c1: an edit between the two inside one second leaves only the sub-second mtime to tell
    return {"c0": b"", "c1": b"line one\nline two\n", "c2": b"crlf one\r\ncrlf two\r\n", "c3": b"LINE ONE\nline two\n",
            "big1": big("B1", 4400), "big2": big("B2", 1100)}


class Dir:
    def __init__(self, root, seed, jobs):
        from dvc_objects.fs.local import LocalFileSystem

        self.root = root
        self.ws = os.path.join(root, "ws")
        os.makedirs(self.ws)
        self.fs = LocalFileSystem()
        self.contents = contents(seed)
        self.digest = {c: hashlib.md5(b).hexdigest() for c, b in self.contents.items()}
        self.rev_digest = {v: k for k, v in self.digest.items()}
        self.jobs = jobs
        self.linked = set()
        self.tick_ns = 1_700_000_000_000_000_000
        self.state = None
        self.last_obj = None
        self.first_oid = None
        self.serials = []

    def path(self, p):
        return os.path.join(self.ws, *PATHS[p].split("/"))

    def edit(self, p, c):
        fp = self.path(p)
        if c == "-":
            if os.path.lexists(fp):
                os.unlink(fp)
            return
        os.makedirs(os.path.dirname(fp), exist_ok=True)
        if p in self.linked:
            # the entry is a symbolic link to a file kept elsewhere (a data set assembled from links): the edit rewrites
            # the file behind the link, the link itself stays as it is
            tgt = os.path.join(self.root, "elsewhere", p.replace("/", "_"))
            os.makedirs(os.path.dirname(tgt), exist_ok=True)
            if not os.path.islink(fp):
                if os.path.lexists(fp):
                    os.unlink(fp)
                os.symlink(tgt, fp)
                os.utime(fp, ns=(1_600_000_000_000_000_000, 1_600_000_000_000_000_000), follow_symlinks=False)
        with open(fp, "wb") as fh:
            fh.write(self.contents[c])
        # edits are a quarter of a second apart (several inside one second), in place (same inode)
        self.tick_ns += 250_000_000
        os.utime(fp, ns=(self.tick_ns, self.tick_ns))

    def odb(self, state_kind):
        from dvc_data.hashfile.db.local import LocalHashFileDB
        from dvc_data.hashfile.state import State

        cfg = {}
        if state_kind == "real":
            if self.state is None:
                self.state = State(root_dir=self.root, tmp_dir=os.path.join(self.root, "state"))
            cfg["state"] = self.state
        return LocalHashFileDB(self.fs, os.path.join(self.root, "cache"), **cfg)

    def listing_of(self, tree):
        out = []
        for key, _meta, hi in tree:
            rel = "/".join(key)
            out.append([REV.get(rel, "?" + rel), self.rev_digest.get(hi.value if hi else None, "corrupt")])
        return sorted(out)

    def canon_ok(self, tree):
        entries = {"/".join(k): (hi.value if hi else None) for k, _m, hi in tree}
        if any(v is None for v in entries.values()):
            return False
        return tree.oid == hashlib.md5(canonical_dir_bytes(entries)).hexdigest() + ".dir"

    def build(self, state_kind, sub=None, sp="plain"):
        from dvc_data.hashfile.build import build
        from dvc_data.hashfile.transfer import transfer
        from dvc_data.hashfile.tree import Tree

        odb = self.odb(state_kind)
        target = self.ws if sub is None else os.path.join(self.ws, *sub.split("/"))
        target += {"plain": "", "slash": os.sep, "dslash": os.sep * 2}[sp]      # the caller's spelling of the directory
        staging, meta, obj = build(odb, target, self.fs, "md5", checksum_jobs=self.jobs)
        with obj.fs.open(obj.path, "rb") as fh:
            raw = fh.read()
        parsed = sorted([REV.get(e["relpath"], "?" + e["relpath"]), self.rev_digest.get(e.get("md5"), "corrupt")]
                        for e in json.loads(raw))
        transfer(staging, odb, {obj.hash_info}, shallow=False)
        loaded = Tree.load(odb, obj.hash_info)
        return obj, meta, parsed, self.listing_of(loaded), raw

    def close(self):
        if self.state is not None:
            self.state.close()


def run_trace(case, seed):
    root = tlc.scratch_dir("c03-")
    rng = random.Random(seed * 7919 + case["id"])
    d = Dir(root, seed, case["jobs"])
    d.linked = set(case.get("linked", []))
    try:
        order = [p for p in case["init"] if case["init"][p] != "-"]
        rng.shuffle(order)  # creation order decides the walk order
        for p in order:
            d.edit(p, case["init"][p])
        events = []
        for a in case["ops"]:
            op = a["op"]
            if op == "Edit":
                d.edit(a["p"], a["c"])
                events.append({"act": a, "res": {}})
            elif op == "Build":
                a = {**a, "cfg": {**a["cfg"], "sp": a["cfg"].get("sp") or ("plain", "slash", "dslash")[(case["id"] + len(events)) % 3]}}
                obj, meta, parsed, loaded, raw = d.build(a["cfg"]["state"], sp=a["cfg"]["sp"])
                lst = d.listing_of(obj)
                d.last_obj, d.last_state = obj, a["cfg"]["state"]
                nfiles_ok = meta.nfiles == len(lst)
                d.serials.append({"bid": hashlib.md5(raw).hexdigest(), "listing": lst})
                events.append({"act": a, "res": {"listing": lst, "parsed": parsed, "loaded": loaded,
                                                 "oid_canon": bool(d.canon_ok(obj)), "nfiles_ok": bool(nfiles_ok)}})
                # insertion order / metadata independence on the same entries
                from dvc_data.hashfile.meta import Meta
                from dvc_data.hashfile.tree import Tree

                ents = [(k, m, hi) for k, m, hi in obj]
                rng.shuffle(ents)
                t2 = Tree()
                for k, _m, hi in ents:
                    t2.add(k, Meta(size=rng.randrange(1000), isexec=rng.random() < 0.5, nfiles=None, mtime=rng.random()), hi)
                t2.digest()
                same = t2.oid == obj.oid
                # ... nor does it matter whether the stored listing is asked to carry the metadata along: the identifier is that
                # of the (path, digest) pairs
                t2.digest(with_meta=True)
                same = same and t2.oid == obj.oid
                events.append({"act": {"op": "Perm"}, "res": {"entries": lst, "listing": d.listing_of(t2),
                                                              "oid_canon": bool(d.canon_ok(t2)), "same_as_first": same}})
            elif op == "UpdateMeta":
                # the directory as it is NOW, built cold, lends its metadata to the tree built last
                from dvc_data.hashfile.tree import update_meta

                if d.last_obj is None or not any(os.path.lexists(d.path(p)) for p in PATHS):
                    continue
                theirs, _m, _p, _l, _raw = d.build("noop")
                ours = d.last_obj
                upd = update_meta(ours, theirs)
                events.append({"act": a, "res": {"listing": d.listing_of(upd), "oid_canon": bool(d.canon_ok(upd)),
                                                 "same_oid": upd.oid == ours.oid}})
                d.last_obj = upd
            elif op == "BuildOther":
                # the same directory staged for the legacy algorithm, with the same State
                from dvc_data.hashfile.build import build as _build
                from dvc_data.hashfile.db.local import LocalHashFileDB as _L
                from dvc_data.hashfile.state import State as _S

                if d.state is None:
                    d.state = _S(root_dir=d.root, tmp_dir=os.path.join(d.root, "state"))
                legacy = _L(d.fs, os.path.join(d.root, "cache-legacy"), state=d.state, hash_name="md5-dos2unix")
                _build(legacy, d.ws, d.fs, "md5-dos2unix", checksum_jobs=d.jobs)
                events.append({"act": a, "res": {}})
            elif op == "Sub":
                obj = d.last_obj
                key = tuple(PATHS[SUBDIRS[a["d"]][0]].split("/")[: len(a["d"].split("/"))])
                sub = obj.get_obj(d.odb(d.last_state), key)
                if sub is None:   # the prefix is not in the tree the library built: an observation, judged by TLC
                    events.append({"act": a, "res": {"listing": [], "oid_canon": False, "direct_same": False}})
                    continue
                direct, _m, _p, _l, raw = d.build(d.last_state, sub="/".join(key))
                # listing of the sub-object is relative to the sub-directory: re-prefix for comparison
                lst = sorted([REV.get("/".join(key + k), "?"), d.rev_digest.get(hi.value, "corrupt")] for k, _mm, hi in sub)
                events.append({"act": a, "res": {"listing": lst, "oid_canon": bool(d.canon_ok(sub)),
                                                 "direct_same": direct.oid == sub.oid}})
        return {"init": {p: c for p, c in case["init"].items() if c != "-"}, "events": events, "case": case}, d.serials
    finally:
        d.close()
        shutil.rmtree(root, ignore_errors=True)


def _work(args):
    import logging

    logging.disable(logging.CRITICAL)
    cases, seed = args
    out = []
    for c in cases:
        try:
            out.append(run_trace(c, seed))
        except Exception:  # noqa: BLE001
            import traceback

            out.append(({"harness_error": traceback.format_exc(), "case": c}, []))
    return out


def sim_cases(num, depth, seed):
    behs = tlc.simulate("MC_TreeCanon", "TreeCanon_sim.cfg", num=num, depth=depth, seed=seed)
    cases = []
    for i, beh in enumerate(behs):
        init = to_json(beh[0][1]["ws"])
        ops = []
        for _lbl, st in beh[1:]:
            a = to_json(st["act"])
            ops.append(a)
        if any(o["op"] == "Build" for o in ops):
            # every other behaviour runs on a directory one of whose entries (".e") is a symbolic link to a file elsewhere
            cases.append({"id": i, "init": init, "ops": ops, "jobs": [None, 1, 4][i % 3], "linked": ["e"] if i % 2 else []})
    return cases


def directed_cases():
    """Cold build, fully warm rebuild, and a rebuild after editing each single file (partially warm cache),
    with two big files in the top directory."""
    init = {"a": "big1", "b": "big2", "s/c": "c1", "s/t/d": "c2", "e": "c0"}
    real = {"op": "Build", "cfg": {"state": "real"}}
    cases = []
    for i, p in enumerate(PATHS):
        newc = "c1" if init[p] != "c1" else "c3"
        ops = [real, real, {"op": "Edit", "p": p, "c": newc}, real, {"op": "Sub", "d": "s"}, {"op": "Build", "cfg": {"state": "noop"}}]
        if i % 2:
            ops = [{"op": "BuildOther"}] + ops[:3] + [{"op": "BuildOther"}] + ops[3:]
        cases.append({"id": 10_000 + i, "init": init, "ops": ops, "jobs": [None, 1, 4][i % 3]})
        cases.append({"id": 10_100 + i, "init": init, "ops": ops, "jobs": [None, 1, 4][i % 3], "linked": ["e", "s/c"]})
        # two edits of one file a quarter of a second apart - the same size, the same inode, the same whole second - with a
        # build (warm cache) after each
        # an edit between two builds, then the later build's metadata carried onto the earlier tree
        cases.append({"id": 10_300 + i, "init": init, "jobs": None,
                      "ops": [real, {"op": "Edit", "p": p, "c": newc}, {"op": "UpdateMeta"}, {"op": "Edit", "p": "e", "c": "-"}, {"op": "UpdateMeta"}]})
        twice = [{"op": "Edit", "p": p, "c": "c3"}, real, {"op": "Edit", "p": p, "c": "c1"}, real, {"op": "Edit", "p": p, "c": "c3"}, real]
        cases.append({"id": 10_200 + i, "init": init, "ops": twice, "jobs": [None, 1, 4][i % 3], "linked": ["e"] if i % 2 else []})
    return cases


def check(run: core.Run, replay=None):
    core.assert_repo_tree()
    quick = run.tier == "quick"
    validate.run_design(run, "MC_TreeCanon", "TreeCanon_quick.cfg", workers=16, required_actions=["Edit", "Sub"],
                        constants={"paths": 3, "contents": 2, "orders": "all walk and completion orders", "MaxSteps": 4})
    if replay:
        cases = [replay["witness"]["case"]]
    else:
        cases = directed_cases() + sim_cases(500 if quick else 4000, 10, run.seed + 1)
    n = 32
    with get_context("fork").Pool(16) as pool:
        parts = pool.map(_work, [(cases[k::n], run.seed) for k in range(n) if cases[k::n]])
    res = [x for part in parts for x in part]
    errs = [t for t, _s in res if "harness_error" in t]
    if errs:
        raise tlc.MachineryError("harness error:\n" + errs[0]["harness_error"])
    traces = [t for t, _s in res]
    serials = [s for _t, ss in res for s in ss]
    uniq = {}
    for s in serials:
        uniq.setdefault((s["bid"], json.dumps(s["listing"])), s)
    serials = list(uniq.values())
    doc = {"paths": sorted(PATHS), "contents": sorted(contents(0)), "subdirs": sorted(SUBDIRS), "under": SUBDIRS,
           "serials": serials[:600]}
    tdir = tlc.SPECS / "trace"
    tlc.sany(str(tdir / "TreeCanonTrace.tla"))
    import concurrent.futures as cf

    work = tlc.scratch_dir("c03v-")
    shards = min(8, len(traces))
    bounds = [(k * len(traces) // shards, (k + 1) * len(traces) // shards) for k in range(shards)]

    def one(k):
        lo, hi = bounds[k]
        f = os.path.join(work, f"t{k}.json")
        tlc.write_json(f, {**doc, "traces": [{"init": t["init"], "events": t["events"]} for t in traces[lo:hi]]})
        r = tlc.run_tlc("TreeCanonTrace", str(tdir / "TreeCanonTrace.cfg"), workers=1, cwd=tdir, env={"TRACE_FILE": f}, coverage=False)
        if not r.ok:
            raise tlc.MachineryError(f"trace validation failed: {r.violated} {r.error}\n{r.stdout[-2500:]}")
        return [(v[0], v[1], v[2], v[3] + lo, v[4], v[5]) for v in r.printed if isinstance(v, tuple) and len(v) == 6], r

    try:
        with cf.ThreadPoolExecutor(max_workers=shards) as ex:
            results = list(ex.map(one, range(shards)))
    finally:
        shutil.rmtree(work, ignore_errors=True)
    run.traces += len(traces)
    run.events += sum(len(t["events"]) for t in traces)
    seen = set()
    for printed, _r in results:
        for tag, prop, clause, tid, l, dev in printed:
            t = traces[tid - 1]
            wit = {"case": t["case"], "event_index": l, "event": t["events"][l - 1]}
            if tag == "VERDICT":
                run.verdict(prop, clause, dev, wit)
            elif tag == "DIVERGENCE" and clause not in seen:
                seen.add(clause)
                run.divergence({"at": clause, **wit})
    run.extra.update({
        "rule": "directed (cold, fully warm, partially warm after editing each single file, then noop) and random "
                "behaviours of edit / build / sub-object on a real directory of 5 files at 3 depths (empty, LF, CRLF and "
                "a 4.4 MiB and a 1.1 MiB file in one directory), files created in random order, checksum_jobs in {default, 1, 4}; "
                "Tree.add in random order with random metadata after every build",
        "distinct_serialisations": len(serials)})
    run.assumptions += ["md5 injective on the contents used", "every edit changes the file's (inode, mtime, size) token"]
    run.add_sample({"case": traces[0]["case"], "first_events": traces[0]["events"][:2]})
    return run.finish()
