"""C13 - cached and carried-over hashes are never stale.  Spec: specs/StateCache.tla.

spec -> code : random behaviours (tlc -simulate) and directed histories of create / delete / mutate (with the
               inode, mtime and size components of the token controlled one by one) / query / injected foreign
               rows / index snapshot + metadata-based update, replayed on real files with a real State;
code -> spec : every hash a query or a carry-over returns is compared by TLC with the content the spec tracks
               (the harness's independent hashlib digests identify contents).
"""
from __future__ import annotations

import hashlib
import json
import os
import random
import shutil
from multiprocessing import get_context

from .. import core, tlc, validate
from ..tlaparse import to_json

# (c3 is text with CRLF line ends: its legacy md5-dos2unix digest is not its md5)
CONTENTS = {"c1": b"content-one", "c2": b"content-two", "c3": b"a longer third content\r\nin two lines\r\n"}
PATHNAMES = {"p": "p.bin", "q": "sub/q é.txt", "r": "r", "o": "<object in a store>"}
APIS = ["hash_file", "get_hashes", "build", "index_md5", "hash_file_info"]


class _Racer:
    """A binary reader that lets a writer in right after the last byte was handed out."""

    def __init__(self, fobj, at_eof):
        self.fobj, self.at_eof, self.fired = fobj, at_eof, False

    def read(self, n=-1):
        d = self.fobj.read(n)
        if not d and not self.fired:
            self.fired = True
            self.at_eof()
        return d

    def tell(self):
        return self.fobj.tell()

    def close(self):
        self.fobj.close()

    def __enter__(self):
        return self

    def __exit__(self, *a):
        if not self.fired:
            self.fired = True
            self.at_eof()
        self.fobj.close()


def racing_fs(path, when, write):
    """A LocalFileSystem whose open(path) lets `write` happen before the bytes are read or after the last read."""
    from dvc_objects.fs.local import LocalFileSystem

    plan = {"armed": True}

    class RacingFS(LocalFileSystem):
        def open(self, p, mode="r", **kw):
            if plan["armed"] and os.fspath(p) == path and "r" in mode:
                plan["armed"] = False
                if when == "before-read":
                    write()
                    return super().open(p, mode, **kw)
                return _Racer(super().open(p, mode, **kw), write)
            return super().open(p, mode, **kw)

    return RacingFS(), plan


class Files:
    def __init__(self, root):
        from dvc_objects.fs.local import LocalFileSystem

        from dvc_data.hashfile.state import State

        self.root = root
        self.ws = os.path.join(root, "ws")
        os.makedirs(os.path.join(self.ws, "sub"))
        os.makedirs(os.path.join(root, "targets"))
        self.fs = LocalFileSystem()
        self.state = State(root_dir=root, tmp_dir=os.path.join(root, "state"))
        self.tick = 1_600_000_000_000_000_000  # ns
        self.hist: dict[str, set] = {p: set() for p in PATHNAMES}
        self.digest = {alg: {hashlib.new(alg, b).hexdigest(): c for c, b in CONTENTS.items()} for alg in ("md5", "sha256")}
        self.old_index = None
        self.pads = None
        self.objpath: dict[str, str] = {}

    LINKS = ("r",)   # this workspace path is a symbolic link to a file kept elsewhere: the token is the TARGET's

    def path(self, p):
        if p in self.objpath:
            return self.objpath[p]
        return os.path.join(self.ws, *PATHNAMES[p].split("/"))

    def store_create(self, p, c, salg):
        """A local store of algorithm `salg` sharing the state database takes the content in: the object's path is p."""
        from dvc_data.hashfile.db.local import LocalHashFileDB
        from dvc_data.hashfile.hash import hash_file

        odb = LocalHashFileDB(self.fs, os.path.join(self.root, "store-" + salg), state=self.state, hash_name=salg)
        tmp = os.path.join(self.root, "incoming")
        with open(tmp, "wb") as fh:
            fh.write(CONTENTS[c])
        _m, hi = hash_file(tmp, self.fs, salg)
        odb.add(tmp, self.fs, hi.value, hardlink=False)
        os.unlink(tmp)
        self.objpath[p] = odb.oid_to_path(hi.value)
        self.note(p)

    def real(self, p):
        """Where the bytes live (the link's target for a linked path)."""
        if p in self.objpath:
            return self.objpath[p]
        if p in self.LINKS:
            return os.path.join(self.root, "targets", p)
        return self.path(p)

    def token(self, p):
        st = os.stat(self.path(p))
        return (st.st_ino, st.st_mtime, st.st_size)

    def fresh_mtime(self):
        self.tick += 1_000_000  # 1 ms steps: distinct after float conversion, usually within one second
        return self.tick

    def note(self, p):
        t = self.token(p)
        self.hist[p].add(t)
        return t

    def create(self, p, c):
        with open(self.real(p), "wb") as fh:
            fh.write(CONTENTS[c])
        mt = self.fresh_mtime()
        os.utime(self.real(p), ns=(mt, mt))
        if p in self.LINKS and not os.path.lexists(self.path(p)):
            os.symlink(self.real(p), self.path(p))
        if self.token(p) in self.hist[p]:
            raise AssertionError("token re-used on create")
        self.note(p)

    def delete(self, p):
        if p in self.objpath:
            os.chmod(self.objpath[p], 0o644)
            os.unlink(self.objpath.pop(p))
            return
        os.unlink(self.path(p))
        if p in self.LINKS:
            os.unlink(self.real(p))

    def mutate(self, p, c, new_ino, new_mt):
        """Returns the (ino, mt) changes that really happened (A13: the token must be new for this path)."""
        fp = self.real(p)      # (a linked path is changed through its target, the link itself stays as it is)
        if p in self.objpath:
            os.chmod(fp, 0o644)
        before = os.stat(fp)
        if new_ino:
            tmp = fp + ".new"
            with open(tmp, "wb") as fh:
                fh.write(CONTENTS[c])
            os.replace(tmp, fp)
        else:
            with open(fp, "r+b") as fh:
                fh.write(CONTENTS[c])
                fh.truncate(len(CONTENTS[c]))
        mt = self.fresh_mtime() if new_mt else before.st_mtime_ns
        os.utime(fp, ns=(mt, mt))
        after = os.stat(fp)
        ino_changed = after.st_ino != before.st_ino
        if self.token(p) in self.hist[p] or (new_ino and not ino_changed):
            # the file system recycled an inode number (or could not give a new one): the old token would
            # come back, which A13 excludes - take a new mtime and log what really happened
            mt = self.fresh_mtime()
            os.utime(fp, ns=(mt, mt))
            after = os.stat(fp)
        self.note(p)
        return ino_changed, after.st_mtime != before.st_mtime

    def apply_over(self, p, c, lt):
        """Index checkout (apply with the state database) asked to create p with content c - the old index does not list p,
        a file is sitting there.  Returns the (ino, mt) changes that really happened."""
        from dvc_data.hashfile.db.local import LocalHashFileDB
        from dvc_data.hashfile.hash_info import HashInfo
        from dvc_data.hashfile.meta import Meta
        from dvc_data.index import DataIndex, DataIndexEntry, ObjectStorage
        from dvc_data.index.checkout import apply, compare

        odb = LocalHashFileDB(self.fs, os.path.join(self.root, "co-cache-" + lt), type=[{"copy": "copy", "hard": "hardlink", "sym": "symlink"}[lt]])
        h = hashlib.md5(CONTENTS[c]).hexdigest()
        odb.add_bytes(h, CONTENTS[c])
        key = tuple(PATHNAMES[p].split("/"))
        idx = DataIndex()
        idx[key] = DataIndexEntry(key=key, meta=Meta(), hash_info=HashInfo("md5", h))
        idx.storage_map.add_cache(ObjectStorage((), odb))
        before = os.stat(self.path(p))
        apply(compare(None, idx), self.ws, self.fs, state=self.state, storage="cache", onerror=lambda *_a: None)
        after = os.stat(self.path(p))
        changed = (after.st_ino, after.st_mtime_ns, after.st_size) != (before.st_ino, before.st_mtime_ns, before.st_size)
        if changed and self.token(p) in self.hist[p]:
            raise AssertionError("token re-used by a checkout")
        self.note(p)
        return after.st_ino != before.st_ino, after.st_mtime != before.st_mtime

    def ident(self, alg, value):
        return self.digest[alg].get(value, "stale-or-wrong:" + str(value)[:12])

    def make_pads(self):
        d = os.path.join(self.root, "pads")
        os.makedirs(d)
        self.pads = {}
        for i in range(1003):
            fp = os.path.join(d, f"pad{i:04d}")
            b = f"pad {i}".encode()
            with open(fp, "wb") as fh:
                fh.write(b)
            self.pads[fp] = hashlib.md5(b).hexdigest()

    def query(self, P, alg, api, with_pads=False):
        from dvc_data.fsutils import _localfs_info
        from dvc_data.hashfile.build import _get_hashes, build
        from dvc_data.hashfile.db.local import LocalHashFileDB
        from dvc_data.hashfile.hash import hash_file

        ans, pads_ok = {}, True
        if api in ("hash_file", "hash_file_info"):
            for p in P:
                info = _localfs_info(self.path(p)) if api == "hash_file_info" else None
                _m, hi = hash_file(self.path(p), self.fs, alg, self.state, info=info)
                ans[p] = self.ident(alg, hi.value)
        elif api == "get_hashes":
            paths = [self.path(p) for p in P]
            extra = []
            if with_pads:
                if self.pads is None:
                    self.make_pads()
                extra = list(self.pads)
                # make half of the pad entries warm and edit one of them in between
                victim = extra[500]
                if random.Random(len(self.hist["p"])).random() < 0.5:
                    with open(victim, "ab") as fh:
                        fh.write(b"!")
                    mt = self.fresh_mtime()
                    os.utime(victim, ns=(mt, mt))
                    self.pads[victim] = hashlib.md5(open(victim, "rb").read()).hexdigest()
            allp = paths[:1] + extra + paths[1:]
            infos = {x: _localfs_info(x) for x in allp}
            # batch and single lookups agree on what is a hit: a path the single lookup answers from the cache is not
            # read again by the batch
            single_hit = set()
            for x in paths:
                _m, hi0 = self.state.get(x, self.fs, info=infos[x])
                if hi0 is not None and hi0.name == alg:
                    single_hit.add(x)
            import dvc_data.hashfile.build as _b

            reread, real_hf = [], _b.hash_file

            def counting(pth, *a_, **kw_):
                reread.append(pth)
                return real_hf(pth, *a_, **kw_)

            _b.hash_file = counting
            try:
                res = _get_hashes(allp, self.fs, alg, infos, state=self.state)
            finally:
                _b.hash_file = real_hf
            pads_ok = not (single_hit & set(reread))
            for p in P:
                ans[p] = self.ident(alg, res[self.path(p)][1].value)
            pads_ok = pads_ok and (all(res[x][1].value == self.pads[x] for x in extra) if alg == "md5" else True)
            # batch and single lookups agree
            for p in P:
                _m, hi = hash_file(self.path(p), self.fs, alg, self.state)
                pads_ok = pads_ok and self.ident(alg, hi.value) == ans[p]
        elif api == "build":
            odb = LocalHashFileDB(self.fs, os.path.join(self.root, "cache"), state=self.state)
            if alg != "md5":
                return self.query(P, alg, "hash_file")
            _stg, _meta, tree = build(odb, self.ws, self.fs, "md5")
            rel = {"/".join(k): hi.value for k, _m, hi in tree}
            for p in P:
                ans[p] = self.ident("md5", rel[PATHNAMES[p]])
        elif api == "index_md5":
            from dvc_data.index.build import build as ibuild
            from dvc_data.index.save import md5 as imd5

            if alg != "md5":
                return self.query(P, alg, "hash_file")
            idx = imd5(ibuild(self.ws, self.fs), state=self.state)
            for p in P:
                e = idx[tuple(PATHNAMES[p].split("/"))]
                ans[p] = self.ident("md5", e.hash_info.value)
        return ans, pads_ok

    def query_race(self, p, alg, api, c, new_ino, new_mt, when):
        """One query on path p, really hashed, with a writer replacing the file at the chosen instant."""
        from dvc_data.fsutils import _localfs_info
        from dvc_data.hashfile.build import _get_hashes, build
        from dvc_data.hashfile.db.local import LocalHashFileDB
        from dvc_data.hashfile.hash import hash_file

        done = {}

        def write():
            done["ino"], done["mt"] = self.mutate(p, c, new_ino, new_mt)

        fp = self.path(p)
        fs, plan = racing_fs(fp, when, write)
        if api == "hash_file":
            _m, hi = hash_file(fp, fs, alg, self.state)
            val = hi.value
        elif api == "hash_file_info":
            _m, hi = hash_file(fp, fs, alg, self.state, info=_localfs_info(fp))
            val = hi.value
        elif api == "get_hashes":
            infos = {fp: _localfs_info(fp)}
            val = _get_hashes([fp], fs, alg, infos, state=self.state)[fp][1].value
        elif api == "build":
            odb = LocalHashFileDB(fs, os.path.join(self.root, "cache"), state=self.state)
            _stg, _meta, tree = build(odb, self.ws, fs, alg)
            val = {"/".join(k): hi.value for k, _m, hi in tree}[PATHNAMES[p]]
        else:  # index_md5
            from dvc_data.index.build import build as ibuild
            from dvc_data.index.save import md5 as imd5

            idx = imd5(ibuild(self.ws, fs), state=self.state, name=alg)
            val = idx[tuple(PATHNAMES[p].split("/"))].hash_info.value
        if plan["armed"] or "ino" not in done:
            # the file was not read at all (a cache hit where the model has none): the write happens after the call, so
            # that the files keep following the history; the answer is reported as it came
            write()
        return {p: self.ident(alg, val)}, done["ino"], done["mt"]

    def inject(self, p, kind):
        from dvc_data.fsutils import _localfs_info
        from dvc_data.hashfile.state import _checksum

        info = _localfs_info(self.path(p))
        entry = {"checksum": _checksum(info), "size": info["size"]}
        bogus = "0" * 32
        if kind == "otheralg":
            entry.update({"version": 1, "hash_info": {"sha1": bogus}})
        elif kind == "newer":
            entry.update({"version": 2, "hash_info": {"md5": bogus}})
        else:  # legacy: no version field, md5 means md5-dos2unix
            entry.update({"hash_info": {"md5": bogus}})
        self.state.hashes.set_many([(self.path(p), json.dumps(entry))])

    def snapshot(self):
        from dvc_data.index import DataIndex
        from dvc_data.index.build import build_entries

        idx = DataIndex()
        for e in build_entries(self.ws, self.fs, compute_hash=True):
            idx.add(e)
        self.old_index = idx

    def carry(self):
        from dvc_data.index.build import build as ibuild
        from dvc_data.index.update import update

        new = ibuild(self.ws, self.fs)
        if self.old_index is None:
            return {}
        update(new, self.old_index)
        ans = {}
        for p, rel in PATHNAMES.items():
            key = tuple(rel.split("/"))
            try:
                e = new[key]
            except KeyError:
                continue
            if e.hash_info:
                ans[p] = self.ident("md5", e.hash_info.value)
        return ans

    def close(self):
        self.state.close()


def run_trace(case):
    root = tlc.scratch_dir("c13-")
    f = Files(root)
    events = []
    # whole-directory APIs (staging, index md5) record rows for every file; in behaviours generated with api = "any" a
    # race needs the model's and the code's idea of "not cached" to agree, so those draw from the per-path APIs only
    # (races through the whole-directory APIs are in the directed histories)
    APIS = globals()["APIS"]
    if any(o["op"] == "QueryRace" for o in case["ops"]):
        APIS = ["hash_file", "get_hashes", "hash_file_info"] if any(o.get("api") == "any" for o in case["ops"]) else APIS
    try:
        if case.get("empty_batch"):
            # a batch lookup of nothing while the database is still empty (a directory holding only sub-directories)
            list(f.state.get_many([], f.fs, {}))
        for k, a in enumerate(case["ops"]):
            a = dict(a)
            op = a["op"]
            ev = {"ans": {}, "pads_ok": True}
            if op == "Create":
                f.create(a["p"], a["c"])
            elif op == "StoreCreate":
                f.store_create(a["p"], a["c"], a["salg"])
            elif op == "Delete":
                f.delete(a["p"])
            elif op == "Mutate":
                ino, mt = f.mutate(a["p"], a["c"], a["ino"], a["mt"])
                a["ino"], a["mt"] = bool(ino), bool(mt)
            elif op == "Query":
                api = a["api"] if a["api"] != "any" else APIS[(case["id"] + k) % len(APIS)]
                if set(a["P"]) & set(f.objpath) and api in ("build", "index_md5"):
                    api = "hash_file"      # an object in a store is not part of the workspace directory
                a["api"] = api
                ev["ans"], ev["pads_ok"] = f.query(sorted(a["P"]), a["alg"], api, with_pads=case.get("pads") and api == "get_hashes")
            elif op == "QueryRace":
                api = a["api"] if a["api"] != "any" else APIS[(case["id"] + k) % len(APIS)]
                a["api"] = api
                ev["ans"], ino, mt = f.query_race(a["p"], a["alg"], api, a["c"], a["ino"], a["mt"], a["when"])
                a["ino"], a["mt"] = bool(ino), bool(mt)
            elif op == "Inject":
                f.inject(a["p"], a["kind"])
            elif op == "ApplyOver":
                ino, mt = f.apply_over(a["p"], a["c"], a["lt"])
                a["ino"], a["mt"] = bool(ino), bool(mt)
            elif op == "Snapshot":
                f.snapshot()
            elif op == "Carry":
                ev["ans"] = f.carry()
            ev["act"] = a
            events.append(ev)
        return events
    finally:
        f.close()
        shutil.rmtree(root, ignore_errors=True)


def _work(cases):
    import logging

    logging.disable(logging.CRITICAL)
    out = []
    for c in cases:
        try:
            out.append(run_trace(c))
        except Exception:  # noqa: BLE001
            import traceback

            out.append({"harness_error": traceback.format_exc(), "case": c})
    return out


def sim_cases(num, depth, seed):
    behs = tlc.simulate("MC_StateCache", "StateCache_sim.cfg", num=num, depth=depth, seed=seed)
    cases = []
    for i, beh in enumerate(behs):
        ops = [to_json(st["act"]) for _l, st in beh[1:]]
        if any(o["op"] in ("Query", "Carry", "QueryRace") for o in ops):
            cases.append({"id": i, "ops": ops})
    return cases


def directed_cases():
    """One token component at a time, for every API, cache warm before the mutation."""
    cases = []
    n = 0
    for api in APIS:
        for (c2, ino, mt, what) in [("c2", False, True, "mtime only"), ("c3", False, False, "size only"),
                                    ("c2", True, False, "inode only"), ("c3", True, True, "all"), ("c1", True, False, "same bytes, new inode")]:
            q = {"op": "Query", "P": ["p", "q"], "alg": "md5", "api": api}
            ops = [{"op": "Create", "p": "p", "c": "c1"}, {"op": "Create", "p": "q", "c": "c2"}, q,
                   {"op": "Mutate", "p": "p", "c": c2, "ino": ino, "mt": mt}, q,
                   {"op": "Delete", "p": "q"}, {"op": "Create", "p": "q", "c": "c1"}, q]
            cases.append({"id": 100000 + n, "ops": ops, "what": what, "pads": api == "get_hashes" and what == "mtime only"})
            n += 1
    # the same through a workspace path that is a symbolic link: the target is what changes
    for api in APIS:
        for (c2, ino, mt) in [("c2", False, True), ("c2", True, False), ("c3", True, True)]:
            q = {"op": "Query", "P": ["r", "q"], "alg": "md5", "api": api}
            ops = [{"op": "Create", "p": "r", "c": "c1"}, {"op": "Create", "p": "q", "c": "c2"}, q,
                   {"op": "Mutate", "p": "r", "c": c2, "ino": ino, "mt": mt}, q, q]
            cases.append({"id": 150000 + n, "ops": ops})
            n += 1
    for kind in ("otheralg", "newer", "legacy"):
        for api in APIS:
            q = {"op": "Query", "P": ["p"], "alg": "md5", "api": api}
            cases.append({"id": 200000 + n, "ops": [{"op": "Create", "p": "p", "c": "c1"}, {"op": "Inject", "p": "p", "kind": kind}, q, q]})
            n += 1
    # rows recorded one by one (single lookups) after an empty batch lookup on the empty database, then a batch lookup
    for c in ("c1", "c3"):
        q1 = {"op": "Query", "P": ["p", "q"], "alg": "md5", "api": "hash_file"}
        qb = {"op": "Query", "P": ["p", "q"], "alg": "md5", "api": "get_hashes"}
        cases.append({"id": 270000 + n, "empty_batch": True,
                      "ops": [{"op": "Create", "p": "p", "c": c}, {"op": "Create", "p": "q", "c": "c2"}, q1, qb, q1, qb]})
        n += 1
    # an index checkout with the state database over a file its old index does not list, every link type
    for lt in ("copy", "hard", "sym"):
        for api in ("hash_file", "get_hashes", "build", "index_md5"):
            q = {"op": "Query", "P": ["p"], "alg": "md5", "api": api}
            for c0, c1 in (("c1", "c2"), ("c1", "c3"), ("c2", "c2")):
                cases.append({"id": 260000 + n, "ops": [{"op": "Create", "p": "p", "c": c0}, {"op": "Create", "p": "q", "c": "c3"},
                                                       {"op": "ApplyOver", "p": "p", "c": c1, "lt": lt, "ino": False, "mt": False}, q, q]})
                n += 1
    # an object taken in by a store of another algorithm (sharing the state database), then looked up under md5
    for salg in ("md5-dos2unix", "sha256", "md5"):
        for c in ("c3", "c1"):
            for api in ("hash_file", "get_hashes", "hash_file_info"):
                q = {"op": "Query", "P": ["o"], "alg": "md5", "api": api}
                cases.append({"id": 250000 + n, "ops": [{"op": "StoreCreate", "p": "o", "c": c, "salg": salg}, q, q,
                                                       {"op": "Query", "P": ["o"], "alg": "sha256", "api": "hash_file"}, q]})
                n += 1
    # a writer gets in during a query: before the bytes are read / after the last read; every later lookup must miss
    for api in APIS:
        for when in ("before-read", "after-read"):
            for (c2, ino, mt) in [("c2", False, True), ("c3", True, True), ("c2", True, False)]:
                ops = [{"op": "Create", "p": "p", "c": "c1"}, {"op": "Create", "p": "q", "c": "c3"},
                       {"op": "QueryRace", "p": "p", "alg": "md5", "api": api, "c": c2, "ino": ino, "mt": mt, "when": when}]
                ops += [{"op": "Query", "P": ["p", "q"], "alg": "md5", "api": a2} for a2 in APIS]
                cases.append({"id": 400000 + n, "ops": ops})
                n += 1
    # carry-over by metadata
    for (c2, ino, mt) in [("c2", False, True), ("c3", False, False), ("c2", True, False), ("c1", False, True)]:
        ops = [{"op": "Create", "p": "p", "c": "c1"}, {"op": "Create", "p": "r", "c": "c3"}, {"op": "Snapshot"}, {"op": "Carry"},
               {"op": "Mutate", "p": "p", "c": c2, "ino": ino, "mt": mt}, {"op": "Carry"}]
        cases.append({"id": 300000 + n, "ops": ops})
        n += 1
    return cases


def check(run: core.Run, replay=None):
    core.assert_repo_tree()
    quick = run.tier == "quick"
    validate.run_design(run, "MC_StateCache", "StateCache_quick.cfg" if quick else "StateCache_thorough.cfg", workers=16,
                        required_actions=["Mutate", "Delete", "Create", "Query", "QueryRace", "Inject", "Snapshot", "Carry"],
                        constants={"paths": 1, "contents": 3, "MaxSteps": 6 if quick else 7})
    validate.run_design(run, "MC_StateCache", "StateCache_quick2.cfg", workers=16, constants={"paths": 2, "MaxSteps": 5})
    if replay:
        cases = [replay["witness"]["case"]]
    else:
        cases = directed_cases() + sim_cases(500 if quick else 5000, 14, run.seed + 1)
    with get_context("fork").Pool(16) as pool:
        traces = [t for part in pool.map(_work, [cases[k::48] for k in range(48) if cases[k::48]]) for t in part]
    order = [c for k in range(48) for c in cases[k::48]]
    errs = [t for t in traces if isinstance(t, dict)]
    if errs:
        raise tlc.MachineryError("harness error:\n" + errs[0]["harness_error"])
    printed, stats = validate.validate_traces("StateCacheTrace", "StateCacheTrace.cfg", traces, shards=12)
    run.traces += len(traces)
    run.events += sum(len(t) for t in traces)
    seen = set()
    for v in printed:
        if not (isinstance(v, tuple) and len(v) == 6):
            continue
        tag, prop, clause, tid, l, dev = v
        wit = {"case": order[tid - 1], "event_index": l, "event": traces[tid - 1][l - 1]}
        if tag == "VERDICT":
            run.verdict(prop, clause, dev, wit)
        elif clause not in seen:
            seen.add(clause)
            run.divergence({"at": clause, **wit})
    run.extra.update({"rule": "directed histories changing exactly one token component (mtime by 1 ms / size with the mtime restored / "
                              "inode by rename with mtime and size preserved) for each lookup API (hash_file with and without caller "
                              "info, _get_hashes incl. a 1003-path batch across the 999 chunk boundary, build, index.md5), foreign rows "
                              "(other algorithm, newer version, legacy unversioned), metadata-based index.update; plus random behaviours",
                      "validation": stats})
    run.assumptions += ["A13: a (inode, mtime, size) token is never re-used for other content at the same path - the harness keeps each "
                        "path's token history and takes a new mtime when the file system recycles an inode number",
                        "mtime steps are 1 ms (they survive the float st_mtime the code uses)",
                        "rows for a non-local file system cannot be produced (State ignores non-local fs entirely)"]
    run.add_sample({"case": order[0], "events": traces[0][:4]})
    return run.finish()
