"""C01 (growth) - stores of different hash algorithms sharing one hash-state database.  Spec: specs/MultiAlg.tla.

spec -> code : random behaviours (tlc -simulate) and directed histories of Edit / Add (directory staging, single
               file staging, index.save, upload staging) / Migrate, replayed on a real md5-dos2unix store and a real
               md5 store (LocalHashFileDB) that share one real State;
code -> spec : after every step every object file of both stores is read back, its bytes identified, and its name
               translated into "the md5 / the md5-dos2unix digest of content c" with the harness's own hashlib
               reference; TLC matches the step against the spec action and judges C01 on the observation.
"""
from __future__ import annotations

import hashlib
import os
import shutil
import stat
from multiprocessing import get_context

from .. import core, tlc, validate
from ..tlaparse import to_json

CONTENTS = {
    "lf": b"alpha line\nbeta line\n",
    "lf2": b"omega line\nzeta line\n",
    "lfcr": b"alpha line\r\nbeta line\r\n",
    "crlf": b"gamma line\r\ndelta line\r\n",
    "bin": b"\x00\x01binary\r\nwith cr lf pairs\r\n\xff",
}
# (the two files share their base name, one level apart: whatever is named after the base name alone collides)
FILES = {"p": "p.txt", "q": "sub e\u0301/p.txt"}
ALG = {"legacy": "md5-dos2unix", "cache": "md5", "plain": "md5"}
LOCAL = ("legacy", "cache")


def _md5(b):
    return hashlib.md5(b).hexdigest()


def _dos(b):
    """Reference md5-dos2unix for files below one chunk: text (no NUL, <= 30% odd bytes in the first 512) loses CRs."""
    head = b[:512]
    text_chars = bytes(range(32, 127)) + b"\n\r\t\f\b"
    is_text = (not head) or (b"\x00" not in head and len(head.translate(None, text_chars)) / len(head) <= 0.30)
    return _md5(b.replace(b"\r\n", b"\n") if is_text else b)


M = {_md5(b): c for c, b in CONTENTS.items()}
D = {_dos(b): c for c, b in CONTENTS.items()}
BYTES = {b: c for c, b in CONTENTS.items()}


def token(name):
    if name in M:
        return "m:" + M[name]
    if name in D:
        return "d:" + D[name]
    return "?:" + name[:12]


class Lab:
    def __init__(self, root):
        from dvc_objects.fs.local import LocalFileSystem

        from dvc_data.hashfile.db.local import LocalHashFileDB
        from dvc_data.hashfile.state import State

        self.root = root
        self.fs = LocalFileSystem()
        self.ws = os.path.join(root, "ws")
        self.data = os.path.join(self.ws, "data")
        os.makedirs(self.data)
        self.state = State(root_dir=root, tmp_dir=os.path.join(root, "state"))
        from dvc_data.hashfile.db import HashFileDB

        self.odb = {s: (LocalHashFileDB if s in LOCAL else HashFileDB)(self.fs, os.path.join(root, s), state=self.state, hash_name=a)
                    for s, a in ALG.items()}
        self.tick = 1_600_000_000_000_000_000
        self.saved_idx = {}

    def path(self, p):
        return os.path.join(self.data, FILES[p])

    def edit(self, p, c, how="rewrite"):
        fp = self.path(p)
        old = os.stat(fp).st_mtime_ns if os.path.exists(fp) else None
        os.makedirs(os.path.dirname(fp), exist_ok=True)
        tmp = fp + ".new"
        with open(tmp, "wb") as fh:
            fh.write(CONTENTS[c])
        os.replace(tmp, fp)
        if how == "keep-mtime" and old is not None:
            os.utime(fp, ns=(old, old))         # a new inode carrying the old mtime
        else:
            self.tick += 1_000_000
            os.utime(fp, ns=(self.tick, self.tick))

    def add(self, s, how):
        from dvc_data.hashfile.build import build
        from dvc_data.hashfile.transfer import transfer
        from dvc_data.index.build import build as ibuild
        from dvc_data.index.save import md5 as imd5
        from dvc_data.index.save import save as isave

        odb, alg = self.odb[s], ALG[s]
        if how in ("stage", "upload", "file", "hardlink"):
            src = self.path("p") if how == "file" else self.data
            staging, _meta, obj = build(odb, src, self.fs, alg, upload=(how == "upload"))
            res = transfer(staging, odb, {obj.hash_info}, shallow=False, hardlink=(how == "hardlink"))
            if res.failed:
                raise AssertionError(f"transfer failed: {res.failed}")
        elif how == "save":
            idx = imd5(ibuild(self.ws, self.fs), state=self.state, name=alg)
            isave(idx, odb=odb)
            self.saved_idx[s] = idx
        elif how.startswith("resave:"):
            # the index saved earlier into store how[7:], with the hashes it recorded then, hashed and saved again - into s
            idx = imd5(self.saved_idx[how[7:]], state=self.state, name=alg)
            isave(idx, odb=odb)
        else:
            raise AssertionError(how)

    def migrate(self, s, t):
        from dvc_data.hashfile.db.migrate import migrate, prepare

        migrate(prepare(self.odb[s], self.odb[t]))

    def observe(self):
        store, prot, dirs_ok, aliens = {}, {}, True, []
        for s in ALG:
            base = os.path.join(self.root, s)
            pairs, ro = [], []
            if os.path.isdir(base):
                for d in sorted(os.listdir(base)):
                    sub = os.path.join(base, d)
                    if len(d) != 2 or not os.path.isdir(sub):
                        continue  # temporary upload files live at the top level: not objects
                    for f in sorted(os.listdir(sub)):
                        fp = os.path.join(sub, f)
                        name = d + f
                        with open(fp, "rb") as fh:
                            b = fh.read()
                        if name.endswith(".dir"):
                            dirs_ok = dirs_ok and name == _md5(b) + ".dir" and (s not in LOCAL or not os.lstat(fp).st_mode & 0o222)
                            continue
                        if b not in BYTES:
                            aliens.append([s, name[:12]])
                            continue
                        t = token(name)
                        pairs.append([t, BYTES[b]])
                        if not stat.S_IMODE(os.lstat(fp).st_mode) & 0o222:
                            ro.append(t)
            # the generic class never protects; its files may still be read-only because they share an inode with a
            # protected object of a local store (hard links) - not part of the model
            store[s], prot[s] = pairs, (ro if s in LOCAL else [])
        return {"store": store, "prot": prot, "dirs_ok": dirs_ok, "aliens": aliens}

    def close(self):
        self.state.close()
        for s in ALG:
            base = os.path.join(self.root, s)
            for dp, _dn, fn in os.walk(base):
                os.chmod(dp, 0o755)
        shutil.rmtree(self.root, ignore_errors=True)


def run_trace(case):
    lab = Lab(tlc.scratch_dir("c01m-"))
    events = []
    try:
        for p, c in case["init"].items():
            lab.edit(p, c)
        for a in case["ops"]:
            if a["op"] == "Edit":
                lab.edit(a["p"], a["c"], a.get("how", "rewrite"))
            elif a["op"] == "Add":
                lab.add(a["s"], a["how"])
            elif a["op"] == "Migrate":
                lab.migrate(a["s"], a["t"])
            elif a["op"] == "Resave":
                if a["s"] not in lab.saved_idx:
                    continue
                lab.add(a.get("t", a["s"]), "resave:" + a["s"])
            events.append({"act": a, **lab.observe()})
        return {"init": case["init"], "events": events}
    finally:
        lab.close()


def _work(cases):
    import logging

    logging.disable(logging.CRITICAL)
    out = []
    for c in cases:
        try:
            out.append(run_trace(c))
        except Exception:  # noqa: BLE001
            import traceback

            out.append({"harness_error": traceback.format_exc(), "case": c})
    return out


def sim_cases(num, depth, seed):
    behs = tlc.simulate("MC_MultiAlg", "MultiAlg_sim.cfg", num=num, depth=depth, seed=seed)
    cases = []
    for i, beh in enumerate(behs):
        ops = [to_json(st["act"]) for _l, st in beh[1:]]
        if any(o["op"] != "Edit" for o in ops):
            cases.append({"id": i, "init": to_json(beh[0][1]["ws"]), "ops": ops})
    return cases


def directed_cases():
    """A file hashed for one algorithm and then added, unchanged, to the store of the other - by every code path."""
    cases, n = [], 0
    hows = {"legacy": ["stage", "save", "file", "hardlink"], "cache": ["stage", "save", "upload", "file", "hardlink"]}
    for first, second in (("legacy", "cache"), ("cache", "legacy")):
        for h1 in hows[first]:
            for h2 in hows[second]:
                for init in ({"p": "crlf", "q": "lf"}, {"p": "lfcr", "q": "lf"}, {"p": "bin", "q": "crlf"}):
                    ops = [{"op": "Add", "s": first, "how": h1}, {"op": "Add", "s": second, "how": h2},
                           {"op": "Migrate", "s": first, "t": second}, {"op": "Edit", "p": "p", "c": "lf", "how": "rewrite"},
                           {"op": "Add", "s": second, "how": h2}, {"op": "Migrate", "s": second, "t": first}]
                    cases.append({"id": 100000 + n, "init": init, "ops": ops})
                    n += 1
    # a file replaced by one of the same size carrying the old mtime, between two adds by every code path
    for s_ in LOCAL:
        for how in hows[s_]:
            ops = [{"op": "Add", "s": s_, "how": how}, {"op": "Edit", "p": "p", "c": "lf2", "how": "keep-mtime"},
                   {"op": "Add", "s": s_, "how": how}, {"op": "Edit", "p": "p", "c": "lf", "how": "keep-mtime"}, {"op": "Add", "s": s_, "how": how}]
            cases.append({"id": 100000 + n, "init": {"p": "lf", "q": "bin"}, "ops": ops})
            n += 1
    for how in ("stage", "hardlink", "save", "upload", "file"):
        for t in LOCAL:
            for init in ({"p": "crlf", "q": "lf"}, {"p": "bin", "q": "lfcr"}):
                ops = [{"op": "Add", "s": "plain", "how": how}, {"op": "Migrate", "s": "plain", "t": t},
                       {"op": "Edit", "p": "q", "c": "crlf", "how": "rewrite"}, {"op": "Add", "s": t, "how": "hardlink"},
                       {"op": "Migrate", "s": t, "t": "plain"}]
                cases.append({"id": 100000 + n, "init": init, "ops": ops})
                n += 1
    # an index saved, a file edited (any way), the SAME index hashed and saved again
    for s_ in ("cache", "legacy"):
        for p_, c_ in (("p", "lf2"), ("q", "crlf"), ("p", "lfcr")):
            for how in ("rewrite", "keep-mtime"):
                t_ = {"cache": "plain", "legacy": "legacy"}[s_]      # (plain is the other md5 store)
                ops = [{"op": "Add", "s": s_, "how": "save"}, {"op": "Edit", "p": p_, "c": c_, "how": how}, {"op": "Resave", "s": s_, "t": t_},
                       {"op": "Edit", "p": p_, "c": "bin", "how": how}, {"op": "Resave", "s": s_, "t": s_}]
                cases.append({"id": 5000 + n, "init": {"p": "lf", "q": "bin"}, "ops": ops})
                n += 1
    return cases


def check(run: core.Run, replay=None):
    """Adds the multi-algorithm part to a C01 run (called from objectstore.check_C01 before it finishes)."""
    quick = run.tier == "quick"
    validate.run_design(run, "MC_MultiAlg", "MultiAlg_quick.cfg" if quick else "MultiAlg_thorough.cfg", workers=16,
                        required_actions=["Edit", "Add", "Migrate"],
                        constants={"stores": "md5-dos2unix + md5", "contents": 4, "paths": 2, "MaxSteps": 5 if quick else 6})
    if replay is not None:
        cases = [replay]
    else:
        cases = directed_cases() + sim_cases(150 if quick else 2000, 10, run.seed + 11)
    with get_context("fork").Pool(16) as pool:
        traces = [t for part in pool.map(_work, [cases[k::32] for k in range(32) if cases[k::32]]) for t in part]
    order = [c for k in range(32) for c in cases[k::32]]
    errs = [t for t in traces if "harness_error" in t]
    if errs:
        raise tlc.MachineryError("harness error:\n" + errs[0]["harness_error"])
    printed, stats = validate.validate_traces("MultiAlgTrace", "MultiAlgTrace.cfg", traces, shards=8)
    run.traces += len(traces)
    run.events += sum(len(t["events"]) for t in traces)
    seen = set()
    for v in printed:
        if not (isinstance(v, tuple) and len(v) == 6):
            continue
        tag, prop, clause, tid, l, dev = v
        wit = {"multialg": order[tid - 1], "event_index": l, "event": traces[tid - 1]["events"][l - 1]}
        if tag == "VERDICT":
            run.verdict(prop, clause, dev, wit, replay={"module": "multialg", "case": order[tid - 1]})
        elif clause not in seen:
            seen.add(clause)
            run.divergence({"at": "MultiAlg:" + clause, **wit})
    run.extra["multialg"] = {"rule": "md5-dos2unix and md5 LocalHashFileDB stores sharing one State; contents: LF text, its CRLF twin, an "
                                     "independent CRLF text, binary data with CR LF pairs; Add by directory staging / single-file staging / "
                                     "index.save / upload staging; Migrate both ways; every object name re-derived with the harness's own "
                                     "md5 and md5-dos2unix reference",
                             "traces": len(traces), "validation": stats}
    run.assumptions.append("md5-dos2unix reference: files below one 1 MiB chunk (the text sniff looks at the first 512 bytes of each chunk)")
