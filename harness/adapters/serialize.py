"""C20 - serialisation round-trips.  Specs: specs/SerializeTables.tla (dictionary forms) and
specs/IndexStore.tla (SQLite-backed index: live / rows / disk, lazy loading, commit, reopen; JSON and
key-value file forms).

spec -> code : every Meta / HashInfo shape of the table spec is converted by the real classes; random
               behaviours of IndexStore (tlc -simulate) are replayed on a real DataIndex.open() index
               with an object store attached that can supply a lazily loaded directory;
code -> spec : TLC validates every observed conversion and every step of every trace.
"""
from __future__ import annotations

import itertools
import json
import os
import random
import shutil
from multiprocessing import get_context

from .. import core, tlc, validate
from ..tlaparse import to_json

PROP = "C20"
BOOLS, INTS, STRS = ["True", "False"], ["None", "0", "7"], ["None", "", "x"]
BOOLF, INTF, STRF, UNSER = ["isdir", "isexec"], ["size", "nfiles"], ["version_id", "etag", "checksum", "md5", "remote"], ["inode", "mtime"]
FIELDS = BOOLF + INTF + STRF + UNSER


def _py(v):
    return {"None": None, "True": True, "False": False}.get(v, int(v) if v.isdigit() else v)


def _s(v):
    return "None" if v is None else str(v)


def _meta_record(m: dict):
    from dvc_data.hashfile.meta import Meta

    meta = Meta(**{f: _py(v) for f, v in m.items()})
    d = meta.to_dict()
    back = Meta.from_dict(d)
    d2 = back.to_dict()
    # clause (iii): a directory listing written WITH metadata parses back, given its hash name, to the same entry
    from dvc_data.hashfile.hash_info import HashInfo
    from dvc_data.hashfile.tree import Tree

    hname = ("md5", "md5-dos2unix")[len(d) % 2]
    key, hval = ("sub dir", "b é.dir"), "d41d8cd98f00b204e9800998ecf8427e"
    tree = Tree()
    tree.add(key, meta, HashInfo(hname, hval))
    lst = json.loads(json.dumps(tree.as_list(with_meta=True)))
    parsed = list(Tree.from_list(lst, hash_name=hname))
    (k2, m2, h2), = parsed
    lst_ok = k2 == key and h2 is not None and h2.name == hname and h2.value == hval
    return {"m": m, "d": [[k, _s(v)] for k, v in d.items()], "back": {f: _s(getattr(back, f)) for f in FIELDS},
            "d2": [[k, _s(v)] for k, v in d2.items()],
            "lst": {f: _s(getattr(m2, f)) for f in FIELDS} if m2 is not None else {f: "None" if f not in BOOLF else "False" for f in FIELDS},
            "lst_ok": bool(lst_ok)}


def _hash_record(name, value):
    from dvc_data.hashfile.hash_info import HashInfo

    hi = HashInfo(_py(name), _py(value))
    d = hi.to_dict()
    back = HashInfo.from_dict(d)
    return {"h": {"name": name, "value": value}, "d": [[k, _s(v)] for k, v in d.items()],
            "back": {"name": _s(back.name), "value": _s(back.value)}}


def all_metas():
    for b in itertools.product(BOOLS, repeat=len(BOOLF)):
        for i in itertools.product(INTS, repeat=len(INTF) + len(UNSER)):
            for s in itertools.product(STRS, repeat=len(STRF)):
                m = dict(zip(BOOLF, b))
                m.update(dict(zip(INTF + UNSER, i)))
                m.update(dict(zip(STRF, s)))
                yield m


def _tables_work(ms):
    return [_meta_record(m) for m in ms]


# ------------------------------------------------------------------------------------------
# IndexStore traces
# ------------------------------------------------------------------------------------------
class Store:
    """A real SQLite-backed index plus an object store holding the directory object of key `d`."""

    def __init__(self, root):
        from dvc_objects.fs.local import LocalFileSystem

        from dvc_data.hashfile.db import HashFileDB
        from dvc_data.hashfile.hash_info import HashInfo
        from dvc_data.hashfile.meta import Meta
        from dvc_data.hashfile.tree import Tree
        from dvc_data.index import DataIndex

        self.root = root
        self.path = os.path.join(root, "index.db")
        self.odb = HashFileDB(LocalFileSystem(), os.path.join(root, "odb"))
        self.kid = {}
        tree = Tree()
        for name in ("x", "y"):
            data = f"content of {name}".encode()
            import hashlib

            h = hashlib.md5(data).hexdigest()
            self.odb.add_bytes(h, data)
            self.kid[name] = h
            tree.add((name,), Meta(size=len(data)), HashInfo("md5", h))
        tree.digest()
        self.odb.add(tree.path, tree.fs, tree.oid)
        self.dirhash = tree.oid
        self.h = hashlib.md5(b"plain").hexdigest()
        self.idx = DataIndex.open(self.path)
        self.attach()

    def attach(self):
        from dvc_data.index import ObjectStorage

        self.idx.storage_map.add_cache(ObjectStorage((), self.odb))

    def entry(self, key, e):
        from dvc_data.hashfile.hash_info import HashInfo
        from dvc_data.hashfile.meta import Meta
        from dvc_data.index import DataIndexEntry

        meta = {"none": None, "empty": Meta(), "f": Meta(size=3), "fr": Meta(size=3, remote="r1"),
                "d": Meta(isdir=True, nfiles=2)}[e["meta"]]
        hi = {"none": None, "h": HashInfo("md5", self.h), "dirhash": HashInfo("md5", self.dirhash)}[e["hash"]]
        return DataIndexEntry(key=key, meta=meta, hash_info=hi, loaded={"N": None, "T": True, "F": False}[e["loaded"]])

    def project(self, entry):
        md = entry.meta.to_dict() if entry.meta is not None else None
        if md is None:
            meta = "none"
        elif md == {}:
            meta = "empty"
        elif md == {"size": 3}:
            meta = "f"
        elif md == {"size": 3, "remote": "r1"}:
            meta = "fr"
        elif md == {"isdir": True, "nfiles": 2}:
            meta = "d"
        elif set(md) <= {"md5", "size"} and md.get("md5") in self.kid.values():
            meta = "k"
        else:
            meta = "other:" + json.dumps(md, sort_keys=True)
        hv = entry.hash_info.value if entry.hash_info else None
        if hv is None:
            hsh = "none"
        elif hv == self.h:
            hsh = "h"
        elif hv == self.dirhash:
            hsh = "dirhash"
        elif hv in self.kid.values():
            hsh = "hk"
        else:
            hsh = "other:" + hv
        return {"meta": meta, "hash": hsh, "loaded": {None: "N", True: "T", False: "F"}[entry.loaded]}

    def listing(self, idx=None):
        idx = idx or self.idx
        out = {}
        for key, entry in idx._trie.items():  # read through the trie: no lazy loading is triggered
            out["/".join(key)] = self.project(entry)
        return out


def run_trace(ops, root):
    from dvc_data.index import DataIndex
    from dvc_data.index.serialize import read_db, read_json, write_db, write_json

    st = Store(root)
    events = []
    n = 0
    for a in ops:
        op = a["op"]
        ev = {"act": a, "readback": {}}
        if op == "Set":
            key = tuple(a["k"].split("/"))
            st.idx[key] = st.entry(key, a["e"])
        elif op == "SetInPlace":
            # the object the index hands out is completed in place and stored again under its key
            key = tuple(a["k"].split("/"))
            try:
                obj, want = st.idx._trie[key], st.entry(key, a["e"])
                obj.meta, obj.hash_info, obj.loaded = want.meta, want.hash_info, want.loaded
                st.idx[key] = obj
            except KeyError:
                pass     # the index does not hold what the history says it holds: the listing logged below tells
        elif op == "Del":
            del st.idx[tuple(a["k"].split("/"))]
        elif op == "Elsewhere":
            # a second SQLite-backed index of this process, another file: same key, the given entry; committed and read
            if getattr(st, "other", None) is None:
                st.other = DataIndex.open(os.path.join(root, "other.db"))
            key = tuple(a["k"].split("/"))
            st.other[key] = st.entry(key, a["e"])
            st.other.commit()
            list(st.other._trie.items())
        elif op == "Iter":
            list(st.idx.iteritems())
        elif op == "Commit":
            st.idx.commit()
        elif op == "Reopen":
            st.idx.close()
            st.idx = DataIndex.open(st.path)
        elif op == "Attach":
            st.attach()
        elif op == "Export":
            n += 1
            if a["kind"] == "json":
                p = os.path.join(root, f"out{n}.json")
                write_json(st.idx, p)
                back = read_json(p)
            else:
                p = os.path.join(root, f"out{n}.dbdir")
                write_db(st.idx, p)
                back = read_db(p)
            ev["readback"] = st.listing(back)
        ev["live"] = st.listing()
        events.append(ev)
    st.idx.close()
    if getattr(st, "other", None) is not None:
        st.other.close()
    return events


def _trace_work(args):
    import logging

    logging.disable(logging.CRITICAL)
    out = []
    for ops in args:
        root = tlc.scratch_dir("c20-")
        try:
            out.append(run_trace(ops, root))
        except Exception:  # noqa: BLE001
            import traceback

            out.append({"harness_error": traceback.format_exc(), "ops": ops})
        finally:
            shutil.rmtree(root, ignore_errors=True)
    return out


def sim_ops(num, depth, seed):
    behs = tlc.simulate("MC_IndexStore", "IndexStore_sim.cfg", num=num, depth=depth, seed=seed)
    out = []
    for beh in behs:
        ops = [to_json(st["act"]) for _lbl, st in beh[1:]]
        if ops:
            out.append(ops)
    return out


def directed_ops():
    """Histories every run includes: lazy load then commit/reopen, for each loaded flag the directory may carry."""
    E = lambda m, h, l: {"meta": m, "hash": h, "loaded": l}  # noqa: E731
    out = []
    for ld in ("N", "F"):
        base = [{"op": "Set", "k": "d", "e": E("d", "dirhash", ld)}, {"op": "Set", "k": "p", "e": E("f", "h", "N")}]
        out.append(base + [{"op": "Commit"}, {"op": "Iter"}, {"op": "Commit"}, {"op": "Reopen"}, {"op": "Iter"}])
        out.append(base + [{"op": "Iter"}, {"op": "Reopen"}, {"op": "Attach"}, {"op": "Iter"}, {"op": "Commit"}, {"op": "Reopen"}])
        out.append(base + [{"op": "Export", "kind": "json"}, {"op": "Export", "kind": "db"}, {"op": "Commit"}, {"op": "Reopen"}])
        # a key assigned twice in one session: completed in place and stored again; replaced by an entry that differs in
        # the remote name only
        out.append(base + [{"op": "Commit"}, {"op": "SetInPlace", "k": "p", "e": E("none", "h", "N")}, {"op": "SetInPlace", "k": "d", "e": E("d", "dirhash", "T")},
                           {"op": "Commit"}, {"op": "Reopen"}])
        out.append(base + [{"op": "Set", "k": "p", "e": E("fr", "h", "N")}, {"op": "Commit"}, {"op": "Reopen"}, {"op": "Set", "k": "p", "e": E("f", "h", "N")},
                           {"op": "Commit"}, {"op": "Reopen"}])
        # another index of the same process written under the same keys, between the commit and the reopen / the reads
        out.append(base + [{"op": "Commit"}, {"op": "Elsewhere", "k": "p", "e": E("none", "none", "N")}, {"op": "Elsewhere", "k": "d", "e": E("f", "h", "T")},
                           {"op": "Reopen"}, {"op": "Attach"}, {"op": "Iter"}, {"op": "Commit"}, {"op": "Reopen"}])
    return out


def check(run: core.Run, replay=None):
    core.assert_repo_tree()
    quick = run.tier == "quick"
    rng = random.Random(run.seed)
    validate.run_design(run, "SerializeTables", "SerializeTables_quick.cfg", workers=8,
                        constants={"metas": 78732, "hashes": 12})
    validate.run_design(run, "MC_IndexStore", "IndexStore_quick.cfg" if quick else "IndexStore_thorough.cfg",
                        workers=16, required_actions=["Set", "Del", "Elsewhere", "Iter", "Commit", "Reopen", "Attach", "Export"],
                        constants={"keys": ["p", "d", "d/x", "d/y"], "lazy": ["d"], "MaxSteps": 5 if quick else 6})
    # ---- tables ----
    metas = list(all_metas())
    if quick:
        metas = rng.sample(metas, 16000)
    with get_context("fork").Pool(16) as pool:
        recs = [r for part in pool.map(_tables_work, [metas[k::32] for k in range(32)]) for r in part]
    hashes = [_hash_record(n, v) for n in ["None", "md5", "md5-dos2unix", "sha256", ""] for v in ["None", "", "h", "h.dir"]]
    tdir = tlc.SPECS / "trace"
    tlc.sany(str(tdir / "SerializeTablesTrace.tla"))
    import concurrent.futures as cf

    work = tlc.scratch_dir("c20v-")
    shards = 16
    bounds = [(k * len(recs) // shards, (k + 1) * len(recs) // shards) for k in range(shards)]

    def one(k):
        lo, hi = bounds[k]
        f = os.path.join(work, f"t{k}.json")
        tlc.write_json(f, {"metas": recs[lo:hi], "hashes": hashes if k == 0 else []})
        res = tlc.run_tlc("SerializeTablesTrace", str(tdir / "SerializeTablesTrace.cfg"), workers=1, cwd=tdir,
                          env={"TRACE_FILE": f}, coverage=False)
        if not res.ok:
            raise tlc.MachineryError(f"table validation failed: {res.violated} {res.error}\n{res.stdout[-2000:]}")
        return [(v, lo) for v in res.printed if isinstance(v, tuple) and v and v[0] == "VERDICT"]

    try:
        with cf.ThreadPoolExecutor(max_workers=shards) as ex:
            outs = [x for part in ex.map(one, range(shards)) for x in part]
    finally:
        shutil.rmtree(work, ignore_errors=True)
    for v, lo in outs:
        i = v[3]
        nm = bounds[[b[0] for b in bounds].index(lo)][1] - lo
        wit = recs[lo + i - 1] if i <= nm else hashes[i - nm - 1]
        run.verdict("C20", v[2], [], {"table_record": wit})
    run.events += len(recs) + len(hashes)
    # ---- index store traces ----
    if replay and "ops" in replay.get("witness", {}):
        ops_list = [replay["witness"]["ops"]]
    else:
        ops_list = directed_ops() + sim_ops(400 if quick else 4000, 10, run.seed + 1)
    with get_context("fork").Pool(16) as pool:
        traces = [t for part in pool.map(_trace_work, [ops_list[k::32] for k in range(32) if ops_list[k::32]]) for t in part]
    errs = [t for t in traces if isinstance(t, dict)]
    if errs:
        raise tlc.MachineryError("harness error: " + errs[0]["harness_error"])
    # order of traces: rebuild same order as ops_list slices
    order = [ops for k in range(32) for ops in ops_list[k::32]]
    printed, stats = validate.validate_traces("IndexStoreTrace", "IndexStoreTrace.cfg", traces, shards=12)
    run.traces += len(traces)
    run.events += sum(len(t) for t in traces)
    seen = set()
    for v in printed:
        if not (isinstance(v, tuple) and len(v) == 6):
            continue
        tag, prop, clause, tid, l, dev = v
        wit = {"ops": order[tid - 1], "event_index": l, "event": traces[tid - 1][l - 1]}
        if tag == "VERDICT":
            run.verdict(prop, clause, dev, wit)
        elif clause not in seen:
            seen.add(clause)
            run.divergence({"at": clause, **wit})
    run.extra.update({
        "rule": "every Meta shape (2 booleans x 4 int-like x 5 string fields, 0 / '' / None included) and HashInfo shape "
                "through to_dict/from_dict; directed and random (tlc -simulate) histories of set / del / iterate with lazy "
                "directory loading / commit / close+reopen / attach storage / export to JSON and key-value form on a real "
                "SQLite-backed index",
        "meta_shapes": len(recs), "hash_shapes": len(hashes), "index_histories": len(traces), "validation": stats})
    run.assumptions += ["entries are compared through their serialisable projection (metadata dict, hash dict, loaded "
                        "flag); empty metadata and no metadata are the same thing",
                        "rollback is outside the statement (commit, close and reopen only); the empty root key is not used"]
    run.add_sample({"meta_record": recs[0]})
    run.add_sample({"ops": order[0], "events": traces[0][:3]})
    return run.finish()
