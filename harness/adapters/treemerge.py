"""C19 - three-way directory merge.  Spec: specs/TreeMerge.tla.

spec -> code : every (ancestor, ours, theirs) triple of the spec's universe and
               every policy is executed through the real tree._merge (both
               argument orders) and a seeded sample through tree.merge with a
               real object store;
code -> spec : every observed outcome is validated by TLC against CodeMerge
               (conformance) and the C19 predicates (verdict).
"""
from __future__ import annotations

import hashlib
import itertools
import json
import os
import random
import shutil
from multiprocessing import get_context

from .. import core, tlc, validate

PROP = "C19"
KEYS = ["k1", "k2", "k3"]
# "subdir.x" next to directory "subdir": the order of key tuples and the order of joined paths (the canonical one) differ
# (a literal backslash in a file name is just a character of the name)
CONCRETE_KEYS = {"k1": ("subdir.x",), "k2": ("subdir", "bar\\e\u0301"), "k3": ("subdir", "deep", "ba z.dir")}
ABSENT = "-"
POLICIES = [sorted(p) for n in range(4) for p in itertools.combinations(["add", "change", "remove"], n)]


def _vals(names, alg="md5"):
    """The values a listing maps keys to; with alg != "md5" the files were hashed with the optional other algorithm
    (build(..., "sha256")) - the directory object itself is still named by its md5."""
    from dvc_data.hashfile.hash_info import HashInfo
    from dvc_data.hashfile.meta import Meta

    out = {}
    for v in names:
        h = hashlib.new(alg, f"content of {v}".encode()).hexdigest()
        out[v] = (Meta(md5=h) if alg == "md5" else Meta(), HashInfo(alg, h))
    return out


def _vals_meta(names):
    """The same abstract values, told apart by METADATA only: every value has the hash of the first one; they differ in
    the executable bit / the size recorded (an entry whose mode changed and whose content did not)."""
    from dvc_data.hashfile.hash_info import HashInfo
    from dvc_data.hashfile.meta import Meta

    h = hashlib.md5(f"content of {names[0]}".encode()).hexdigest()
    metas = [Meta(md5=h), Meta(md5=h, isexec=True), Meta(md5=h, isexec=True, size=7)]
    return {v: (metas[i % 3], HashInfo("md5", h)) for i, v in enumerate(names)}


def _mk(listing, vals):
    return {CONCRETE_KEYS[k]: vals[v] for k, v in listing.items()}


def _abstract(d, vals):
    rev_k = {v: k for k, v in CONCRETE_KEYS.items()}
    sig = lambda m, hi: (getattr(hi, "value", None), bool(getattr(m, "isexec", False)), getattr(m, "size", None))  # noqa: E731
    rev_v = {sig(m, hi): name for name, (m, hi) in vals.items()}
    out = {}
    for key, val in d.items():
        k = rev_k.get(tuple(key), "corrupt-key:" + "/".join(key))
        m, hi = val if isinstance(val, tuple) and len(val) == 2 else (None, None)
        out[k] = rev_v.get(sig(m, hi), "corrupt")
    return out


def _call(a, o, t, pol, vals):
    from dvc_data.hashfile.tree import MergeError, _merge

    try:
        m = _merge(_mk(a, vals), _mk(o, vals), _mk(t, vals), allowed=list(pol))
    except MergeError:
        return {"kind": "MergeError"}
    except BaseException as exc:  # noqa: BLE001 - any other exception is itself the observation
        return {"kind": "exc", "type": type(exc).__name__}
    return {"kind": "merged", "m": _abstract(m, vals), "canon": "n/a"}


def canonical_dir_oid(listing, vals, alg="md5"):
    """Independent canonical encoder of a listing (oracle for the identifier)."""
    lst = [{alg: vals[v][1].value, "relpath": "/".join(CONCRETE_KEYS[k])} for k, v in listing.items()]
    lst.sort(key=lambda e: e["relpath"])
    return hashlib.md5(json.dumps(lst, sort_keys=True).encode()).hexdigest() + ".dir"


def _e2e(a, o, t, pol, vals, odb, alg="md5"):
    """tree.merge through a real store."""
    from dvc_data.hashfile.tree import MergeError, Tree, merge

    def put(listing):
        tr = Tree()
        for k, v in listing.items():
            tr.add(CONCRETE_KEYS[k], *vals[v])
        tr.digest()
        odb.add(tr.path, tr.fs, tr.oid)
        return tr.hash_info

    ai = put(a) if a else None  # empty ancestor is passed as "no ancestor"
    oi, ti = put(o), put(t)
    try:
        merged = merge(odb, ai, oi, ti, allowed=list(pol))
    except MergeError:
        return {"kind": "MergeError"}
    except BaseException as exc:  # noqa: BLE001
        return {"kind": "exc", "type": type(exc).__name__}
    m = _abstract(merged.as_dict(), vals)
    ok = ("corrupt" not in m.values() and all(k in CONCRETE_KEYS for k in m)
          and merged.oid == canonical_dir_oid(m, vals, alg) and merged.hash_info.value == merged.oid)
    return {"kind": "merged", "m": m, "canon": "yes" if ok else "no"}


def _listing(combo):
    return {k: v for k, v in zip(KEYS, combo) if v != ABSENT}


def _work(args):
    chunk, valnames, policies, e2e_idx, sandbox = args
    vals_hash, vals_meta = _vals(valnames), _vals_meta(valnames)
    odb = None
    recs = []
    for idx, (ca, co, ct) in chunk:
        a, o, t = _listing(ca), _listing(co), _listing(ct)
        calls = []
        # every third triple tells its values apart by metadata only (same hash, other executable bit / size)
        meta_only = idx % 3 == 2
        vals = vals_meta if meta_only else vals_hash
        for pol in policies:
            calls.append({"pol": pol, "fwd": _call(a, o, t, pol, vals), "rev": _call(a, t, o, pol, vals)})
        if idx in e2e_idx and not meta_only:      # (a stored listing carries no metadata)
            if odb is None:
                from dvc_objects.fs.local import LocalFileSystem

                from dvc_data.hashfile.db import HashFileDB

                os.makedirs(sandbox, exist_ok=True)
                odb = HashFileDB(LocalFileSystem(), os.path.join(sandbox, f"odb{os.getpid()}"))
            # every other end-to-end triple lists files hashed with the optional other algorithm
            alg = ("md5", "sha256")[idx % 2]
            avals = vals if alg == "md5" else _vals(valnames, alg)
            for pol in policies:
                calls.append({"pol": pol, "fwd": _e2e(a, o, t, pol, avals, odb, alg), "rev": _call(a, t, o, pol, vals)})
        recs.append({"a": a, "o": o, "t": t, "calls": calls})
    return recs


def check(run: core.Run, replay=None):
    core.assert_repo_tree()
    thorough = run.tier == "thorough"
    valnames = ["v1", "v2", "v3"] if thorough else ["v1", "v2"]
    cfg = "TreeMerge_thorough.cfg" if thorough else "TreeMerge_quick.cfg"
    res = validate.run_design(run, "TreeMerge", cfg, workers=8, required_actions=["Call"],
                              constants={"Keys": KEYS, "Vals": valnames, "policies": "all 8"})
    rng = random.Random(run.seed)
    combos = list(itertools.product([ABSENT] + valnames, repeat=len(KEYS)))
    triples = list(enumerate(itertools.product(combos, repeat=3)))
    if thorough:
        # 262 144 triples: all of them through _merge under the default and the
        # widest policy, a seeded 1/8 under every policy
        policies_all = POLICIES
        sample = set(rng.sample(range(len(triples)), len(triples) // 8))
        jobs = []
        n = 64
        wide = [["add"], ["add", "change", "remove"]]
        part_a = [x for x in triples if x[0] not in sample]
        part_b = [x for x in triples if x[0] in sample]
        e2e_idx = set(rng.sample(sorted(sample), 600))
        sandbox = tlc.scratch_dir("c19-")
        for k in range(n):
            jobs.append((part_a[k::n], valnames, wide, set(), sandbox))
            jobs.append((part_b[k::n], valnames, policies_all, e2e_idx, sandbox))
    else:
        e2e_idx = set(rng.sample(range(len(triples)), 150))
        sandbox = tlc.scratch_dir("c19-")
        n = 32
        jobs = [(triples[k::n], valnames, POLICIES, e2e_idx, sandbox) for k in range(n)]
    if replay:
        w = replay["witness"]
        jobs = [([(0, (tuple(w["a_combo"]), tuple(w["o_combo"]), tuple(w["t_combo"])))], valnames, POLICIES, {0}, sandbox)]
    try:
        with get_context("fork").Pool(16) as pool:
            recs = [r for part in pool.map(_work, jobs) for r in part]
    finally:
        shutil.rmtree(sandbox, ignore_errors=True)
    ncalls = sum(len(r["calls"]) for r in recs)
    printed, stats = validate.validate_traces(
        "TreeMergeTrace", "TreeMergeTrace.cfg", recs, shards=16,
        overrides={"Vals": "{" + ", ".join(f'"{v}"' for v in valnames) + "}"})
    run.traces += len(recs)
    run.events += 2 * ncalls
    run.extra.update({
        "exhaustive": True,
        "rule": "every (ancestor, ours, theirs) over Keys x (Vals+absent), each under the listed policies, "
                "both argument orders through tree._merge; seeded sample through tree.merge with a real store",
        "triples": len(recs), "merge_calls": 2 * ncalls, "e2e_merge_calls": len(e2e_idx) * len(POLICIES),
        "validation": stats,
    })
    run.assumptions += ["dictdiffer's diff/patch semantics on flat dicts are as modelled (checked by conformance: "
                        "zero divergences between CodeMerge and the observed outcomes)",
                        "hash values stand for contents (md5 of distinct strings)"]

    def combo(l):
        return [l.get(k, ABSENT) for k in KEYS]

    for v in printed:
        if not (isinstance(v, tuple) and len(v) == 6):
            continue
        tag, prop, clause, i, j, dev = v
        rec = recs[i - 1]
        call = rec["calls"][j - 1]
        wit = {"a": rec["a"], "o": rec["o"], "t": rec["t"], "policy": call["pol"], "fwd": call["fwd"],
               "rev": call["rev"], "a_combo": combo(rec["a"]), "o_combo": combo(rec["o"]), "t_combo": combo(rec["t"])}
        if tag == "VERDICT":
            run.verdict(prop, clause, dev, wit)
        elif tag == "DIVERGENCE":
            run.divergence({"clause": clause, **wit})
    for r in recs[:: max(1, len(recs) // 3)][:3]:
        run.add_sample({"a": r["a"], "o": r["o"], "t": r["t"], "first_call": r["calls"][0]})
    return run.finish()
