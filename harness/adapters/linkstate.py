"""C05 (second clause) - link bookkeeping and clean-up through the state database.  Spec: specs/LinkState.tla.

spec -> code : random behaviours (tlc -simulate) and directed histories of user changes (create / edit in place /
               replace with a new inode but the OLD mtime / touch / add, remove, rename, edit a directory member /
               remove), recordings (State.save_link) and clean-ups (get_unused_links + remove_links with any "in use"
               list) replayed on real files and a real State;
code -> spec : after every step what exists and what the links table holds is matched with the model; for a clean-up
               TLC judges what disappeared against the model's ghost knowledge (recorded, in use, modified since).
"""
from __future__ import annotations

import hashlib
import os
import shutil
from multiprocessing import get_context

from .. import core, tlc, validate
from ..tlaparse import to_json

REL = {"f": "f.txt", "g": os.path.join("sub", "g é.bin"), "d": "dir d"}
KIND = {"f": "file", "g": "file", "d": "dir"}


class Ws:
    def __init__(self, root):
        from dvc_objects.fs.local import LocalFileSystem

        from dvc_data.hashfile.state import State

        self.root = os.path.join(root, "ws")
        os.makedirs(os.path.join(self.root, "sub"))
        self.fs = LocalFileSystem()
        self.state = State(root_dir=self.root, tmp_dir=os.path.join(root, "state"))
        self.tick = 1_650_000_000_000_000_000
        self.n = 0

    def path(self, p):
        return os.path.join(self.root, REL[p])

    def stamp(self, fp):
        self.tick += 1_000_000
        os.utime(fp, ns=(self.tick, self.tick))

    def write(self, fp, tag):
        self.n += 1
        with open(fp, "wb") as fh:
            fh.write(f"{tag} {self.n}\n".encode())
        self.stamp(fp)

    def members(self, p):
        d = self.path(p)
        return sorted(os.listdir(d)) if os.path.isdir(d) else []

    def touch(self, p, how, k):
        fp = self.path(p)
        # (when the code under test has removed or kept something the history did not expect, go on with the nearest
        # meaningful change: the mismatch itself is reported by the trace validation)
        if how != "create" and not os.path.lexists(fp):
            how = "create"
        elif how == "create" and os.path.lexists(fp):
            how = "edit"
        if how == "create":
            if KIND[p] == "dir":
                os.makedirs(fp)
                self.write(os.path.join(fp, "m1"), "member")
                self.write(os.path.join(fp, "m2 ü"), "member")
            else:
                self.write(fp, "file")
            return
        if KIND[p] == "file":
            if how == "edit":
                self.write(fp, "edited")
            elif how == "replace":
                # a new inode carrying the OLD mtime: only the inode half of the record can tell
                old = os.stat(fp).st_mtime_ns
                tmp = fp + ".new"
                with open(tmp, "wb") as fh:
                    fh.write(b"replaced\n")
                os.replace(tmp, fp)
                os.utime(fp, ns=(old, old))
            else:  # "member" on a file: a touch (mtime only)
                self.stamp(fp)
            return
        ms = self.members(p)
        if how == "edit" and ms:
            self.write(os.path.join(fp, ms[0]), "edited member")
        elif how == "replace":
            # the directory itself is replaced by an identical-looking one (same names, same mtimes): a new inode
            keep = {m: (open(os.path.join(fp, m), "rb").read(), os.stat(os.path.join(fp, m)).st_mtime_ns) for m in ms}
            shutil.rmtree(fp)
            os.makedirs(fp)
            for m, (b, mt) in keep.items():
                with open(os.path.join(fp, m), "wb") as fh:
                    fh.write(b)
                os.utime(os.path.join(fp, m), ns=(mt, mt))
        else:  # "member": add / remove / rename a member, in turn
            which = k % 3
            if which == 0 or not ms:
                self.write(os.path.join(fp, f"added {self.n}"), "new member")
            elif which == 1:
                os.unlink(os.path.join(fp, ms[-1]))
            else:
                os.rename(os.path.join(fp, ms[0]), os.path.join(fp, ms[0] + "~"))

    def remove(self, p):
        fp = self.path(p)
        if not os.path.lexists(fp):
            return
        if os.path.isdir(fp):
            shutil.rmtree(fp)
        else:
            os.unlink(fp)

    def fingerprint(self, p):
        fp = self.path(p)
        if not os.path.lexists(fp):
            return None
        if os.path.isdir(fp):
            h = hashlib.md5()
            for r, _d, fs_ in sorted(os.walk(fp)):
                for f in sorted(fs_):
                    h.update(os.path.relpath(os.path.join(r, f), fp).encode() + b"\0" + open(os.path.join(r, f), "rb").read())
            return h.hexdigest()
        return hashlib.md5(open(fp, "rb").read()).hexdigest()

    def rows(self):
        rev = {v: k for k, v in REL.items()}
        with self.state.links as ref:
            return sorted(rev.get(k, "?" + k) for k in ref)

    def observe(self):
        return {"exists": {p: os.path.lexists(self.path(p)) for p in REL}, "rows": self.rows()}


def run_trace(case):
    root = tlc.scratch_dir("c05l-")
    w = Ws(root)
    events = []
    try:
        for k, a in enumerate(case["ops"]):
            op = a["op"]
            ev = {"returned": [], "gone": [], "others_same": True}
            if op == "Touch":
                w.touch(a["p"], a["how"], case["id"] + k)
            elif op == "Remove":
                w.remove(a["p"])
            elif op == "Record":
                w.state.save_link(w.path(a["p"]), w.fs)
            elif op == "CleanUp":
                before = {p: w.fingerprint(p) for p in REL}
                unused = w.state.get_unused_links([w.path(p) for p in a["used"]], w.fs)
                w.state.remove_links(unused, w.fs)
                after = {p: w.fingerprint(p) for p in REL}
                rev = {v: k2 for k2, v in REL.items()}
                ev["returned"] = sorted(rev.get(u, "?" + u) for u in unused)
                ev["gone"] = sorted(p for p in REL if before[p] is not None and after[p] is None)
                ev["others_same"] = all(after[p] == before[p] for p in REL if p not in ev["gone"])
            events.append({"act": a, **w.observe(), **ev})
        return events
    finally:
        w.state.close()
        shutil.rmtree(root, ignore_errors=True)


def _work(cases):
    import logging

    logging.disable(logging.CRITICAL)
    out = []
    for c in cases:
        try:
            out.append(run_trace(c))
        except Exception:  # noqa: BLE001
            import traceback

            out.append({"harness_error": traceback.format_exc(), "case": c})
    return out


def sim_cases(num, depth, seed):
    behs = tlc.simulate("LinkState", "LinkState_sim.cfg", num=num, depth=depth, seed=seed)
    cases = []
    for i, beh in enumerate(behs):
        ops = []
        for _l, st in beh[1:]:
            a = to_json(st["act"])
            if a["op"] == "CleanUp":
                a["used"] = sorted(a["used"])
            ops.append(a)
        if any(o["op"] == "CleanUp" for o in ops):
            cases.append({"id": i, "ops": ops})
    return cases


def directed_cases():
    """Each way of modifying a recorded path, then a clean-up that lists nothing as in use; plus the in-use list."""
    cases, n = [], 0
    for p in REL:
        for how in ("edit", "replace", "member"):
            ops = [{"op": "Touch", "p": q, "how": "create"} for q in REL] + [{"op": "Record", "p": q} for q in REL]
            ops += [{"op": "Touch", "p": p, "how": how}, {"op": "CleanUp", "used": []}, {"op": "CleanUp", "used": []}]
            cases.append({"id": 500000 + n, "ops": ops})
            n += 1
        ops = [{"op": "Touch", "p": q, "how": "create"} for q in REL] + [{"op": "Record", "p": p}]
        ops += [{"op": "CleanUp", "used": [p]}, {"op": "Remove", "p": p}, {"op": "Touch", "p": p, "how": "create"},
                {"op": "CleanUp", "used": []}, {"op": "Record", "p": p}, {"op": "CleanUp", "used": []}]
        cases.append({"id": 500000 + n, "ops": ops})
        n += 1
    return cases


def check(run: core.Run, replay=None):
    """Adds the link clean-up part to a C05 run (called from checkoutobj.check_C05 before it finishes)."""
    quick = run.tier == "quick"
    validate.run_design(run, "LinkState", "LinkState_quick.cfg", workers=16, required_actions=["Touch", "Remove", "Record", "CleanUp"],
                        constants={"paths": 3, "MaxSteps": 6})
    cases = [replay] if replay is not None else directed_cases() + sim_cases(300 if quick else 3000, 12, run.seed + 21)
    with get_context("fork").Pool(16) as pool:
        traces = [t for part in pool.map(_work, [cases[k::32] for k in range(32) if cases[k::32]]) for t in part]
    order = [c for k in range(32) for c in cases[k::32]]
    errs = [t for t in traces if isinstance(t, dict)]
    if errs:
        raise tlc.MachineryError("harness error:\n" + errs[0]["harness_error"])
    printed, stats = validate.validate_traces("LinkStateTrace", "LinkStateTrace.cfg", traces, shards=8)
    run.traces += len(traces)
    run.events += sum(len(t) for t in traces)
    seen = set()
    for v in printed:
        if not (isinstance(v, tuple) and len(v) == 6):
            continue
        tag, prop, clause, tid, l, dev = v
        wit = {"linkstate": order[tid - 1], "event_index": l, "event": traces[tid - 1][l - 1]}
        if tag == "VERDICT":
            run.verdict(prop, clause, dev, wit, replay={"module": "linkstate", "case": order[tid - 1]})
        elif clause not in seen:
            seen.add(clause)
            run.divergence({"at": "LinkState:" + clause, **wit})
    run.extra["linkstate"] = {"rule": "two files (one nested, non-ASCII) and a directory with members; user changes: in-place edit, replacement "
                                      "with a new inode and the old mtime, touch, adding / removing / renaming / editing a directory member, "
                                      "replacing the directory by an identical-looking one; save_link; get_unused_links + remove_links with "
                                      "every 'in use' list", "traces": len(traces), "validation": stats}
    run.assumptions.append("a user modification renews (inode, mtime) of a file or the {member: mtime} digest of a directory (an edit that "
                           "restores both cannot be seen by a record of only those)")
