"""C14 - hashing streams.  Spec: specs/HashStream.tla.

spec -> code : TLC enumerates every (stream kind, content as a sequence of typed 256-byte units, complete sequence
               of read sizes) together with what the hasher must have been fed; the harness concretises units to
               bytes, serves exactly those reads to HashStreamFile / Dos2UnixHashStreamFile / fobj_md5 / file_md5 /
               hash_file and compares the digest with hashlib / blake3 over the concretised expectation;
code -> spec : TLC judges every record with the C14 predicates (raw digest for plain streams whatever the chunking,
               one-read normalisation and CRLF/LF agreement for the legacy stream, pass-through, count).
"""
from __future__ import annotations

import hashlib
import io
import os
import random
import shutil
from multiprocessing import get_context

from .. import core, tlc, validate
from ..tlaparse import to_json

UNIT = 256


def units():
    t = (b"plain text unit 0123456789 abcdefghijklmnopqrstuvwxyz\n" * 6)[: UNIT - 1] + b"."
    c = (b"crlf unit\r\nsecond line of it\r\nthird\r\n" + b"padding text " * 30)[: UNIT - 1] + b"!"
    r = (b"unit ending in a carriage return " * 10)[: UNIT - 1] + b"\r"
    l_ = b"\n" + (b"unit starting with a line feed " * 10)[: UNIT - 1]
    n = b"\x00\x00\x00\x00" + (b"binary unit with NUL bytes " * 12)[: UNIT - 4]
    h = bytes(range(128, 256)) * 2
    u = {"T": t, "C": c, "R": r, "L": l_, "N": n, "H": h}
    u["c"] = c.replace(b"\r\n", b"\n")
    u["r"] = r[:-1]
    assert all(len(u[k]) == UNIT for k in "TCRLNH")
    return u


U = units()


def conc(seq):
    return b"".join(U[k] for k in seq)


BIG = 128 * UNIT   # the 32 KiB units of the file-level cases: head and tail of the small unit around neutral text filler


def big_units():
    fill = (b"filler text 0123456789 abcdefghijklmnopqrstuvwxyz " * (BIG // 40))[: BIG - UNIT]
    b = {k: U[k][:128] + fill + U[k][128:] for k in "TCRLN"}
    b["c"] = b["C"].replace(b"\r\n", b"\n")
    b["r"] = b["R"][:-1]
    assert all(len(b[k]) == BIG for k in "TCRLN") and b"\r" not in fill and b"\n" not in fill
    return b


BU = big_units()


def concb(seq):
    return b"".join(BU[k] for k in seq)


def ref_digest(alg, data):
    alg = alg.lower()
    if alg == "blake3":
        from blake3 import blake3

        return blake3(data).hexdigest()
    if alg == "md5-dos2unix":
        alg = "md5"
    return hashlib.new(alg, data).hexdigest()


def ref_is_text(block):
    if not block:
        return True
    if b"\x00" in block:
        return False
    text = bytes(range(32, 127)) + b"\n\r\t\f\b"
    return len(block.translate(None, text)) / len(block) <= 0.30


def norm_tokens(seq):
    out = []
    for i, k in enumerate(seq):
        if k == "C":
            out.append("c")
        elif k == "R" and i + 1 < len(seq) and seq[i + 1] == "L":
            out.append("r")
        else:
            out.append(k)
    return out


class ServedFile(io.RawIOBase):
    """A binary file object that records the reads it serves."""

    def __init__(self, data, caps=()):
        self.b = io.BytesIO(data)
        self.served = []
        self.caps = list(caps)          # the i-th read returns at most caps[i] bytes (a short read); later reads are full

    def readable(self):
        return True

    def read(self, n=-1):
        k = len(self.served)
        if k < len(self.caps) and (n < 0 or self.caps[k] < n):
            n = self.caps[k]
        d = self.b.read(n)
        self.served.append(len(d))
        return d

    def tell(self):
        return self.b.tell()


def run_big_case(case, tmp):
    """The file-level entry points on files of up to 128 KiB (units of 32 KiB): whatever way they are asked - with or without
    a progress callback, with or without the file's stat - they read in blocks of 1 MiB, i.e. these files in ONE read."""
    from dvc_objects.fs.local import LocalFileSystem
    from fsspec.callbacks import Callback

    from dvc_data.hashfile.hash import file_md5, fobj_md5, hash_file

    stream, content, fed = case["stream"], case["content"], case["fed"]
    data, expected, lf = concb(content), concb(fed), concb(norm_tokens(content))
    if conc(norm_tokens(content)) and lf != data.replace(b"\r\n", b"\n"):
        raise AssertionError("concretisation of NormChunk disagrees with bytes.replace (32 KiB units)")
    if content and ref_is_text(data[:512]) != (content[0] in "TCRLcr"):
        raise AssertionError("unit kinds disagree with the reference text heuristic (32 KiB units)")
    fs = LocalFileSystem()
    p, plf = os.path.join(tmp, f"b{case['id']}"), os.path.join(tmp, f"b{case['id']}.lf")
    for path, b in ((p, data), (plf, lf)):
        with open(path, "wb") as fh:
            fh.write(b)
    algs = ["md5-dos2unix"] if stream == "legacy" else ["md5", "sha256", "blake3"]
    recs = []
    for alg in algs:
        apis = {
            "file_md5": lambda q: file_md5(q, fs, name=alg),
            "file_md5(callback)": lambda q: file_md5(q, fs, callback=Callback(), name=alg),
            "hash_file": lambda q: hash_file(q, fs, alg)[1].value,
            "hash_file(info)": lambda q: hash_file(q, fs, alg, info=fs.info(q))[1].value,
            "hash_file(callback)": lambda q: hash_file(q, fs, alg, callback=Callback())[1].value,
            "fobj_md5": lambda q: fobj_md5(open(q, "rb"), name=alg),  # noqa: SIM115
        }
        for api, fn in apis.items():
            d = fn(p)
            recs.append({"stream": stream, "content": content, "reads": case["reads"], "fed": fed, "api": api + "@32KiB-units", "alg": alg,
                         "wu": 1, "model_match": d == ref_digest(alg, expected), "raw_match": d == ref_digest(alg, data),
                         "norm_match": d == ref_digest(alg, lf), "lf_equal": fn(plf) == d if stream == "legacy" else True,
                         "out_ok": True, "count_ok": True, "one_read": stream == "legacy", "peek_ok": True})
    os.unlink(p)
    os.unlink(plf)
    return recs


def run_case(case, tmp):
    if case.get("big"):
        return run_big_case(case, tmp)
    from dvc_objects.fs.local import LocalFileSystem

    from dvc_data.hashfile.hash import file_md5, fobj_md5, get_hash_stream, hash_file

    stream, content, fed = case["stream"], case["content"], case["fed"]
    pairs = [tuple(r) for r in case["reads"]]          # (requested units, units the source hands over)
    reads = [n for n, _k in pairs]
    caps = [k * UNIT for _n, k in pairs]
    short = any(k < n for n, k in pairs)
    data = conc(content)
    expected = conc(fed)
    # self-checks of the concretisation against the spec's abstractions
    if conc(norm_tokens(content)) != data.replace(b"\r\n", b"\n"):
        raise AssertionError("concretisation of NormChunk disagrees with bytes.replace")
    window_text = all(k in "TCRLcr" for k in content[:2])
    if content and ref_is_text(data[:512]) != window_text:
        raise AssertionError("unit kinds disagree with the reference text heuristic")
    algs = ["md5-dos2unix"] if stream == "legacy" else ["md5", "sha256", "blake3", "MD5"]
    if stream == "plain" and case.get("id", 0) % 8 == 0:
        # every algorithm name the platform's hashlib offers (the library hands any of them to hashlib.new), among them
        # names that merely LOOK like the legacy one ("md5-sha1")
        algs += sorted(a for a in hashlib.algorithms_available if not a.startswith("shake") and a not in algs)
    lf = conc(norm_tokens(content))
    recs = []

    def rec(api, alg, digest, out_ok, count_ok, one_read, lf_digest=None, exp=expected):
        recs.append({"stream": stream, "content": content, "reads": [list(x) for x in pairs], "fed": fed, "api": api, "alg": alg,
                     "model_match": digest == ref_digest(alg, exp), "raw_match": digest == ref_digest(alg, data),
                     "norm_match": digest == ref_digest(alg, lf), "lf_equal": (lf_digest == digest) if lf_digest is not None else True,
                     "out_ok": bool(out_ok), "count_ok": bool(count_ok), "one_read": bool(one_read), "peek_ok": True, "wu": 2})

    for alg in algs:
        # the stream classes, served exactly the modelled reads
        st = get_hash_stream(ServedFile(data, caps) if short else io.BytesIO(data), name=alg)
        out = b""
        # the digest may be asked for at any moment (a progress report, a checkpoint): it is the digest of what has been
        # fed so far, and asking does not freeze it.  One peek per case, at a position that varies with the case.
        peek_at = case.get("id", 0) % (len(reads) + 1)
        peek_ok = True
        for j, n in enumerate(reads):
            if j == peek_at and stream == "plain":
                peek_ok = st.hash_value == ref_digest(alg, out)
            out += st.read(n * UNIT)
        while True:  # callers loop until an empty read
            extra = st.read(max(2, reads[-1] if reads else 2) * UNIT)
            if not extra:
                break
            out += extra
        lf_digest = None
        one = len(pairs) == 1 and pairs[0][1] >= len(content)
        if stream == "legacy" and one:
            st2 = get_hash_stream(io.BytesIO(lf), name=alg)
            st2.read(max(2, reads[0]) * UNIT * 2)
            lf_digest = st2.hash_value
        rec("stream.read", alg, st.hash_value, out == data, st.total_read == len(data), one, lf_digest)
        recs[-1]["peek_ok"] = bool(peek_ok)
        # fobj_md5 with a constant chunk size
        if reads and len(set(reads)) == 1:
            chunk_units = reads[0]
            d = fobj_md5(ServedFile(data, caps) if short else io.BytesIO(data), chunk_size=chunk_units * UNIT,
                         name=alg.lower() if alg != "MD5" else "md5")
            rec("fobj_md5", alg, d, True, True, one and stream == "legacy",
                fobj_md5(io.BytesIO(lf), chunk_size=max(2, chunk_units) * UNIT * 2, name=alg.lower() if alg != "MD5" else "md5")
                if stream == "legacy" and one else None)
    if case.get("files") and not short:
        fs = LocalFileSystem()
        p = os.path.join(tmp, f"f{case['id']}")
        with open(p, "wb") as fh:
            fh.write(data)
        whole = fed if stream == "plain" else (norm_tokens(content) if content and window_text else content)
        for alg in ([a for a in algs if a != "MD5"]):
            d = file_md5(p, fs, name=alg)
            rec("file_md5", alg, d, True, True, stream == "legacy", None, exp=conc(whole))
            _meta, hi = hash_file(p, fs, alg)
            rec("hash_file", alg, hi.value, True, True, stream == "legacy", None, exp=conc(whole))
            # the caller's stat is from when the file was still empty (collected by a walk, the file written since): what is
            # hashed is what is read
            if data:
                pe = p + ".empty"
                open(pe, "wb").close()
                stale = {**fs.info(pe), "name": p}
                os.unlink(pe)
                _meta, hi = hash_file(p, fs, alg, info=stale)
                rec("hash_file(stat of the empty file)", alg, hi.value, True, True, stream == "legacy", None, exp=conc(whole))
        os.unlink(p)
    if stream == "plain" and case.get("jitter") and not short:
        rng = random.Random(case["id"])
        st = get_hash_stream(io.BytesIO(data), name="md5")
        out = b""
        while True:
            d = st.read(rng.choice([1, 7, 255, 256, 257, 511, 512, 513, 1000]))
            if not d:
                break
            out += d
        rec("stream.read(byte sizes)", "md5", st.hash_value, out == data, st.total_read == len(data), False)
    return recs


def _work(cases):
    tmp = tlc.scratch_dir("c14-")
    try:
        out = []
        for c in cases:
            out += run_case(c, tmp)
        return out
    finally:
        shutil.rmtree(tmp, ignore_errors=True)


def generate(cfg):
    res = tlc.run_tlc("HashStream", cfg, workers=1, coverage=False)
    if not res.ok:
        raise tlc.MachineryError("generation failed: " + str(res.error) + res.stdout[-1500:])
    cases = []
    for v in res.printed:
        if isinstance(v, tuple) and v and v[0] == "CASE":
            _t, stream, content, hist, fed = v
            cases.append({"stream": stream, "content": list(content), "reads": [list(h) for h in hist], "fed": list(fed)})
    if not cases:
        raise tlc.MachineryError("no cases generated")
    return cases


def check(run: core.Run, replay=None):
    core.assert_repo_tree()
    quick = run.tier == "quick"
    rng = random.Random(run.seed)
    validate.run_design(run, "HashStream", "HashStream_quick.cfg", workers=8, required_actions=["Next"] if False else (),
                        constants={"kinds": 6, "MaxLen": 4, "ReadSizes": [1, 2, 3, 4]})
    validate.run_design(run, "HashStream", "HashStream_short.cfg", workers=1,
                        constants={"kinds": 4, "MaxLen": 3, "ReadSizes": [2, 3], "Short": True})
    if replay:
        cases = [replay["witness"]["case"]]
    else:
        cases = generate("HashStream_gen.cfg")
        more = generate("HashStream_gen4.cfg")
        more = [c for c in more if len(c["content"]) == 4]
        cases += rng.sample(more, min(len(more), 3000 if quick else len(more)))
        short = generate("HashStream_short.cfg")
        short = [c for c in short if any(k < n for n, k in c["reads"])]
        cases += rng.sample(short, min(len(short), 1500 if quick else len(short)))
        big = generate("HashStream_genfile.cfg")
        for c in big:
            c["big"] = True
        cases += rng.sample(big, min(len(big), 500 if quick else len(big)))
    for i, c in enumerate(cases):
        c["id"] = i
        c["files"] = i % 5 == 0
        c["jitter"] = i % 3 == 0
    with get_context("fork").Pool(16) as pool:
        recs = [r for part in pool.map(_work, [cases[k::64] for k in range(64) if cases[k::64]]) for r in part]
    printed, stats = validate.validate_traces("HashStreamTrace", "HashStreamTrace.cfg", recs, shards=16)
    run.traces += len(cases)
    run.events += len(recs)
    seen = set()
    for v in printed:
        if not (isinstance(v, tuple) and len(v) == 6):
            continue
        tag, prop, clause, i, _j, dev = v
        r = recs[i - 1]
        if tag == "VERDICT":
            run.verdict(prop, clause, dev, {"record": r, "case": {**{k: r[k] for k in ("stream", "content", "reads", "fed")}, "big": r.get("wu") == 1}})
        elif clause not in seen:
            seen.add(clause)
            run.divergence({"at": clause, "record": r})
    run.extra.update({"rule": "every content of <= 3 units over 6 unit kinds (all of <= 4 units in the thorough tier, a seeded "
                              "3000 of them in quick) x every complete sequence of read sizes x both stream kinds, through "
                              "the stream classes, fobj_md5, file_md5 and hash_file for md5 / sha256 / blake3 / MD5 / "
                              "md5-dos2unix; byte-granular read sizes (1..1000, 511/512/513) for plain streams; short reads (the "
                              "source returns fewer units than requested before the end) for the stream classes and fobj_md5; the file-level "
                              "entry points (file_md5 / hash_file with and without callback and stat, fobj_md5 default block) on files "
                              "of <= 4 units of 32 KiB over 5 kinds",
                      "cases": len(cases), "records": len(recs), "validation": stats})
    run.assumptions += ["hashlib / blake3 primitives are the reference (their correctness is trusted)",
                        "units are 256 bytes; for the legacy stream read sizes are whole units (>= 512 bytes as the code asserts)"]
    run.add_sample(recs[0])
    run.add_sample(recs[len(recs) // 2])
    return run.finish()
