"""C05 C10 (and the object route of C02) - object-level checkout.  Spec: specs/Checkout.tla.

spec -> code : TLC writes the building blocks (every prior workspace over the key universe with every link
               type, every cache content incl. corrupt objects, every target); the harness combines them with
               force / relink / prompt, lays the prior state out for real, runs checkout() through a journaling
               file system and repeats every successful call;
code -> spec : every fs.remove, every link/copy into the workspace and the return of the call is one event
               with the observed workspace and cache; TLC validates them against Checkout.tla and evaluates
               C05 on every single removal, C10 at the end of every call.
"""
from __future__ import annotations

import json
import os
import zlib
import random
import shutil
from multiprocessing import get_context

from dvc_objects.fs.local import LocalFileSystem

from .. import core, tlc, validate
from ..coworld import CONTENTS, KEYS, OID, REVKEY, CoWorld, listing_oid, rmtree

LT = {"copy": "copy", "hard": "hardlink", "sym": "symlink"}


class CoFS(LocalFileSystem):
    """Journaling file system used for both the cache and the workspace (so that links are possible)."""

    def __init__(self):
        super().__init__()
        self.hook = None
        self.base = None

    def _key(self, path):
        if self.base is None:
            return None
        path = os.path.normpath(os.fspath(path))      # (the caller may have written the path with a trailing separator)
        if os.path.basename(path).endswith(".tmp") and os.path.basename(path).startswith("."):
            return None   # the link-type probe's scratch file (with a trailing separator it lands inside the directory)
        if path == self.base:
            return "."
        if path.startswith(self.base + os.sep):
            return REVKEY.get(os.path.relpath(path, self.base), "?" + os.path.relpath(path, self.base))
        return None

    def _emit(self, op, path):
        k = self._key(path)
        if k is not None and self.hook is not None:
            self.hook(op, k)

    def remove(self, path):
        paths = [path] if isinstance(path, str) else list(path)
        for p in paths:
            existed = os.path.lexists(p)
            super().remove(p)
            if existed:
                self._emit("Remove", p)

    rm = remove

    def hardlink(self, from_info, to_info):
        super().hardlink(from_info, to_info)
        self._emit("Create", to_info)

    def symlink(self, from_info, to_info):
        super().symlink(from_info, to_info)
        self._emit("Create", to_info)

    def put_file(self, from_file, to_info, callback=None, size=None, **kwargs):
        kw = dict(kwargs)
        if callback is not None:
            kw["callback"] = callback
        super().put_file(from_file, to_info, size=size, **kw)
        self._emit("Create", to_info)


def run_case(case):
    import logging

    logging.disable(logging.CRITICAL)
    root = tlc.scratch_dir("co-")
    from .. import coworld

    coworld.set_alg(case.get("alg", "md5"))
    w = CoWorld(root, case["cls"], LT[case["link"]], with_state=case["state"], read_only=bool(case.get("ro")))
    fs = CoFS()
    w.fs = fs
    w.cache.fs = fs
    try:
        cache = case["init"]["cache"]
        w.setup_cache([c for c, st in cache.items() if st != "none"], case["init"]["dirobjs"],
                      corrupt=[c for c, st in cache.items() if st == "bad"])
        w.setup_ws(case["init"]["ws"])
        fs.base = w.path
        events = []

        def snap():
            o = w.observe_ws()
            files = {("." if k == "" else k): {"c": v["c"], "lt": v["lt"].split("-")[0]} for k, v in o["files"].items()}
            co = w.observe_cache()
            cst = {}
            for c, oid in OID.items():
                if oid in co:
                    cst[c] = "ok" if co[oid]["ok"] else "bad"
            return {"kind": o["kind"], "files": files}, cst, o

        init_ws, init_cache, _ = snap()
        init = {"ws": init_ws, "cache": init_cache, "dirobjs": case["init"]["dirobjs"]}

        def hook(op, k):
            wsj, cj, _o = snap()
            events.append({"act": {"op": op, "k": k}, "ws": wsj, "cache": cj, "flags": {}})

        fs.hook = hook
        for i, op in enumerate(case["ops"]):
            if op.get("op") == "Evict":
                # the object leaves the cache behind the library's back (what a gc that no longer counts it as used does)
                p = w.cache_path(OID[op["c"]])
                if os.path.exists(p):
                    os.chmod(p, 0o644)
                    os.unlink(p)
                wsj, cj, _o = snap()
                events.append({"act": {"op": "Evict", "c": op["c"]}, "ws": wsj, "cache": cj, "flags": {}})
                continue
            if op.get("op") == "Arrive":
                w.put_object(OID[op["c"]], CONTENTS[op["c"]])      # the object was fetched into the cache
                wsj, cj, _o = snap()
                events.append({"act": {"op": "Arrive", "c": op["c"]}, "ws": wsj, "cache": cj, "flags": {}})
                continue
            if op.get("op") == "Replace":
                # the user moves another file of the same size into place and gives it the old file's time stamp
                p = os.path.join(w.path, *KEYS[op["k"]].split("/")) if op["k"] != "." else w.path
                if os.path.lexists(p) and not os.path.isdir(p):
                    st = os.stat(p)
                    tmp = p + ".incoming"
                    with open(tmp, "wb") as fh:
                        fh.write(CONTENTS[op["c"]])
                    os.utime(tmp, ns=(st.st_atime_ns, st.st_mtime_ns))
                    os.replace(tmp, p)
                    wsj, cj, _o = snap()
                    events.append({"act": {"op": "Replace", "k": op["k"], "c": op["c"]}, "ws": wsj, "cache": cj, "flags": {}})
                continue
            if op.get("op") == "Corrupt":
                # the object is replaced by a file of other bytes, left writable (an interrupted write, an edit through a link)
                p = w.cache_path(OID[op["c"]])
                tmp = p + ".new"
                with open(tmp, "wb") as fh:
                    fh.write(CONTENTS[op["c"]] + b"#corrupt")
                os.chmod(tmp, 0o644)
                os.replace(tmp, p)
                wsj, cj, _o = snap()
                events.append({"act": {"op": "Corrupt", "c": op["c"]}, "ws": wsj, "cache": cj, "flags": {}})
                continue
            # a successful checkout is followed by a plain second checkout of the same target
            for rep in range(2):
                if rep == 1:
                    op = {**op, "relink": False}
                before = w.observe_ws()
                wsj, cj, _o = snap()
                # (a hash of the case id, not its parity: link type, store class, state and read-only follow the id's residues)
                sp = op.get("sp") or ("plain", "slash")[zlib.crc32(f"{case['id']}:{i}".encode()) % 2]
                events.append({"act": {"op": "Begin", "t": op["t"], "force": op["force"], "relink": op["relink"],
                                       "prompt": op["prompt"], "state": bool(case["state"]), "sp": sp}, "ws": wsj, "cache": cj, "flags": {}})
                # the Begin event is logged before the call: its observable effect (dropping corrupt objects) is
                # seen with the next event; patch it after the call when nothing else was logged
                idx = len(events) - 1
                r = w.checkout(op["t"], force=op["force"], relink=op["relink"], prompt=op["prompt"], sp=sp)
                wsj, cj, after = snap()
                if len(events) - 1 > idx:
                    events[idx]["cache"] = events[idx + 1]["cache"]
                else:
                    events[idx]["cache"] = cj
                same = {k: (v["ino"], v["mtime_ns"]) for k, v in before["files"].items()} == \
                       {k: (v["ino"], v["mtime_ns"]) for k, v in after["files"].items()}
                writable = all(v["writable"] for v in after["files"].values() if v["lt"] == "copy")
                rec_ok = True
                if w.state is not None and r["kind"] == "ok" and os.path.lexists(w.path):
                    unused = w.state.get_unused_links([], fs)
                    rec_ok = os.path.relpath(w.path, os.path.join(root, "ws")) in unused
                res = {k: v for k, v in r.items() if k in ("kind", "key", "keys", "ret", "type")}
                if res.get("key") == "":
                    res["key"] = "."
                if "keys" in res:
                    res["keys"] = ["." if k == "" else k for k in res["keys"]]
                events.append({"act": {"op": "End", "res": res}, "ws": wsj, "cache": cj,
                               "flags": {"same_inodes": bool(same), "rec_ok": bool(rec_ok), "copies_writable": bool(writable),
                                         "repeat": rep == 1}})
                if r["kind"] != "ok":
                    break
        return {"init": init, "events": events, "case": case}
    finally:
        w.close()
        rmtree(root)


def _work(cases):
    out = []
    for c in cases:
        try:
            out.append(run_case(c))
        except Exception:  # noqa: BLE001
            import traceback

            out.append({"harness_error": traceback.format_exc(), "case": c})
    return out


def generate():
    d = tlc.scratch_dir("gen-")
    out = os.path.join(d, "co.json")
    try:
        tlc.sany("GenCheckout.tla")
        res = tlc.run_tlc("GenCheckout", "GenCheckout.cfg", workers=1, env={"GEN_OUT": out}, coverage=False)
        if not os.path.exists(out):
            raise tlc.MachineryError("generation failed\n" + res.stdout[-1500:])
        gen = json.load(open(out))
        for w in gen["ws"]:  # an empty TLA+ function is serialised as an empty array
            if isinstance(w.get("files"), list):
                w["files"] = {}
        for t in gen["targets"]:
            if isinstance(t.get("listing"), list):
                t["listing"] = {}
        return gen
    finally:
        shutil.rmtree(d, ignore_errors=True)


def make_cases(gen, rng, n, focus):
    wss = sorted(gen["ws"], key=lambda x: json.dumps(x, sort_keys=True))
    caches = sorted(gen["cache"], key=lambda x: json.dumps(x, sort_keys=True))
    targets = sorted(gen["targets"], key=lambda x: json.dumps(x, sort_keys=True))
    cases = []
    for i in range(n):
        link = ["copy", "hard", "sym"][i % 3]
        ws = rng.choice(wss)
        cache = dict(rng.choice(caches))
        t = rng.choice(targets)
        if focus == "C10" or i % 3 == 0:
            # C10's quantifier: cached target, kinds agree; prior state arbitrary
            if t["kind"] == "none":
                t = rng.choice([x for x in targets if x["kind"] != "none"])
            for c in ([t["c"]] if t["kind"] == "file" else list(t.get("listing", {}).values())):
                cache[c] = "ok"
        # files that are links need their object in the cache to be laid out as links
        for f in ws.get("files", {}).values():
            if f["lt"] != "copy" and cache.get(f["c"]) != "ok":
                f = f  # laid out as a copy by the harness; observation tells the truth
        listing = {k: f["c"] for k, f in ws.get("files", {}).items() if k != "."} if ws["kind"] == "dir" else None
        dirobjs = [listing] if (listing is not None and rng.random() < 0.6) else []
        force = rng.random() < (0.6 if focus == "C10" else 0.25)
        relink = rng.random() < (0.5 if focus == "C10" else 0.2)
        prompt = rng.choice(["absent", "absent", "declines", "accepts"])
        op = {"t": t, "force": force, "relink": relink, "prompt": prompt}
        # (the store class by a hash of the id: its parity is tied to `state`, which follows i % 4)
        alg = "md5-dos2unix" if zlib.crc32(b"alg%d" % i) % 6 == 0 else "md5"      # a sixth on a cache of the legacy algorithm
        if alg != "md5" and listing is not None:
            dirobjs = [listing]       # (that staging puts the workspace's directory object into the cache: the cache starts with it)
        # (not through a read-only handle: for an algorithm other than md5 even the dry-run staging of the workspace adds
        # its directory object to the cache - _build_external_tree_info - and a read-only handle refuses that: named behaviour)
        cases.append({"id": i, "link": link, "cls": ["local", "generic"][zlib.crc32(b"cls%d" % i) % 2], "state": i % 4 != 3,
                      "ro": i % 5 == 4 and alg == "md5", "alg": alg,
                      "init": {"ws": ws, "cache": cache, "dirobjs": dirobjs}, "ops": [op]})
    return cases


def directed_cases():
    """The dangerous corner spelled out: directory whose .dir object is cached while its files are not."""
    L = {"a": "c1", "s/b": "c2"}
    d = {"kind": "dir", "files": {"a": {"c": "c1", "lt": "copy"}, "s/b": {"c": "c2", "lt": "copy"}}}
    cases = []
    n = 900000
    for cache in ({}, {"c1": "ok"}, {"c1": "ok", "c2": "ok"}, {"c2": "bad"}):
        for t in ({"kind": "none"}, {"kind": "tree", "listing": {}}, {"kind": "file", "c": "c0"}, {"kind": "tree", "listing": {"a": "c2"}}):
            for prompt in ("absent", "declines"):
                for link in ("copy", "hard", "sym"):
                    cc = dict(cache)
                    if t["kind"] == "file":
                        cc["c0"] = "ok"
                    cases.append({"id": n, "link": link, "cls": "local", "state": True,
                                  "init": {"ws": d, "cache": cc, "dirobjs": [L]},
                                  "ops": [{"t": t, "force": False, "relink": False, "prompt": prompt}]})
                    n += 1
    return cases


def evict_cases():
    """Two checkouts of one process with an object leaving the cache in between (the second one unforced)."""
    cases, n = [], 950000
    firsts = [{"kind": "file", "c": "c1"}, {"kind": "tree", "listing": {"a": "c1", "s/b": "c2"}}, {"kind": "tree", "listing": {"a": "c1", "s/b": "c1"}}]
    seconds = [{"kind": "none"}, {"kind": "file", "c": "c2"}, {"kind": "tree", "listing": {"a": "c2"}}, {"kind": "tree", "listing": {}},
               {"kind": "tree", "listing": {"a": "c1", "s/b": "c0"}}]
    for t1 in firsts:
        for ev in (["c1"], ["c2"], ["c1", "c2"]):
            for t2 in seconds:
                for link in ("copy", "hard", "sym"):
                    for prompt in ("absent", "declines"):
                        cases.append({"id": n, "link": link, "cls": ["local", "generic"][n % 2], "state": n % 3 != 0,
                                      "init": {"ws": {"kind": "absent"}, "cache": {"c0": "ok", "c1": "ok", "c2": "ok"}, "dirobjs": []},
                                      "ops": [{"t": t1, "force": False, "relink": False, "prompt": "absent"}]
                                             + [{"op": "Evict", "c": c} for c in ev]
                                             + [{"t": t2, "force": False, "relink": False, "prompt": prompt}]})
                        n += 1
    return cases


def arrive_cases():
    """A checkout that fails because an object is missing, the object arrives, the checkout is run again (and repeated)."""
    cases, n = [], 990000
    for c, other in (("c1", "c2"), ("c2", "c1")):
        for t in ({"kind": "tree", "listing": {"a": c, "s/b": other}}, {"kind": "tree", "listing": {"a": c, "s/b": c}}, {"kind": "file", "c": c}):
            for link in ("copy", "hard"):
                for cls in ("local", "generic"):
                    for state in (False, True):
                        op = {"t": t, "force": True, "relink": False, "prompt": "absent"}
                        cases.append({"id": n, "link": link, "cls": cls, "state": state,
                                      "init": {"ws": {"kind": "absent"}, "cache": {"c0": "ok", other: "ok"}, "dirobjs": []},
                                      "ops": [op, {"op": "Arrive", "c": c}, op, dict(op, relink=True)]})
                        n += 1
    return cases


def corrupt_between_cases():
    """A cache object is damaged between two checkouts of one process; the second one needs it for a new path."""
    cases, n = [], 980000
    for c in ("c1", "c2"):
        for t1, t2 in (({"kind": "tree", "listing": {"a": c}}, {"kind": "tree", "listing": {"a": c, "s/b": c}}),
                       ({"kind": "file", "c": c}, {"kind": "tree", "listing": {"s/b": c}}),
                       ({"kind": "tree", "listing": {"a": c, "s/b": "c0"}}, {"kind": "tree", "listing": {"a": "c0", "s/b": c}})):
            for cls in ("local", "generic"):
                for state in (False, True):
                    for force in (False, True):
                        cases.append({"id": n, "link": "copy", "cls": cls, "state": state,
                                      "init": {"ws": {"kind": "absent"}, "cache": {"c0": "ok", "c1": "ok", "c2": "ok"}, "dirobjs": []},
                                      "ops": [{"t": t1, "force": False, "relink": False, "prompt": "absent"}, {"op": "Corrupt", "c": c},
                                              {"t": t2, "force": force, "relink": False, "prompt": "accepts"}]})
                        n += 1
    return cases


def replace_cases():
    """Between two checkouts of one process the user replaces workspace files by files of equal size carrying the old time
    stamps (c1 and c2 are twins): by content the cache cannot give back, then an unforced checkout of something else; or the
    two files of a tree swapped, then a forced checkout of the same tree."""
    cases, n = [], 990000
    both = {"kind": "tree", "listing": {"a": "c1", "s/b": "c2"}}
    for link in ("copy", "hard", "sym"):
        for cls in ("local", "generic"):
            for state in (True, False):
                # (i) the replacement is the user's own data: c2 is not in the cache
                for t1, k in (({"kind": "tree", "listing": {"a": "c1"}}, "a"), ({"kind": "file", "c": "c1"}, "."),
                              ({"kind": "tree", "listing": {"a": "c0", "s/b": "c1"}}, "s/b")):
                    for t2 in ({"kind": "tree", "listing": {"a": "c0", "s/b": "c0"}}, {"kind": "none"}, {"kind": "file", "c": "c0"},
                               {"kind": "tree", "listing": {}}):
                        for force, prompt in ((False, "absent"), (False, "declines")):
                            cases.append({"id": n, "link": link, "cls": cls, "state": state,
                                          "init": {"ws": {"kind": "absent"}, "cache": {"c0": "ok", "c1": "ok"}, "dirobjs": []},
                                          "ops": [{"t": t1, "force": False, "relink": False, "prompt": "absent", "sp": "plain"},
                                                  {"op": "Replace", "k": k, "c": "c2"},
                                                  {"t": t2, "force": force, "relink": False, "prompt": prompt, "sp": "plain"}]})
                            n += 1
                # (ii) the two files of the tree swapped; everything is in the cache
                for force in (True, False):
                    cases.append({"id": n, "link": link, "cls": cls, "state": state,
                                  "init": {"ws": {"kind": "absent"}, "cache": {"c0": "ok", "c1": "ok", "c2": "ok"}, "dirobjs": []},
                                  "ops": [{"t": both, "force": False, "relink": False, "prompt": "absent", "sp": "plain"},
                                          {"op": "Replace", "k": "a", "c": "c2"}, {"op": "Replace", "k": "s/b", "c": "c1"},
                                          {"t": both, "force": force, "relink": False, "prompt": "accepts", "sp": "plain"}]})
                    n += 1
    return cases


def dangling_cases():
    """A prior directory that holds a dangling symbolic link next to user files the cache cannot give back."""
    cases, n = [], 960000
    priors = [{"a": {"c": "dangling", "lt": "sym"}, "s/b": {"c": "c3", "lt": "copy"}},
              {"a": {"c": "c3", "lt": "copy"}, "s/b": {"c": "dangling", "lt": "sym"}},
              {"a": {"c": "dangling", "lt": "sym"}, "s/b": {"c": "c1", "lt": "copy"}}]
    targets = [{"kind": "tree", "listing": {"a": "c1", "s/b": "c1"}}, {"kind": "tree", "listing": {"s/b": "c2"}},
               {"kind": "tree", "listing": {}}, {"kind": "none"}, {"kind": "file", "c": "c1"}]
    for files in priors:
        for t in targets:
            for link in ("copy", "hard", "sym"):
                for force, prompt in ((False, "absent"), (False, "declines"), (True, "absent")):
                    cases.append({"id": n, "link": link, "cls": ["local", "generic"][n % 2], "state": n % 3 != 0,
                                  "init": {"ws": {"kind": "dir", "files": files}, "cache": {"c0": "ok", "c1": "ok", "c2": "ok"}, "dirobjs": []},
                                  "ops": [{"t": t, "force": force, "relink": False, "prompt": prompt}]})
                    n += 1
    return cases


def mixed_link_cases():
    """Duplicates of one cache object laid out with DIFFERENT link types (part of the workspace re-created after the
    configured type was switched), then a relinking checkout of the same tree."""
    cases, n = [], 970000
    for lts in (("hard", "sym"), ("sym", "hard"), ("copy", "sym"), ("hard", "copy"), ("sym", "copy"), ("copy", "hard")):
        for c in ("c1", "c2"):
            files = {"a": {"c": c, "lt": lts[0]}, "s/b": {"c": c, "lt": lts[1]}}
            for link in ("copy", "hard", "sym"):
                for state in (False, True):
                    cases.append({"id": n, "link": link, "cls": ["local", "generic"][n % 2], "state": state,
                                  "init": {"ws": {"kind": "dir", "files": files}, "cache": {"c0": "ok", "c1": "ok", "c2": "ok"}, "dirobjs": []},
                                  "ops": [{"t": {"kind": "tree", "listing": {"a": c, "s/b": c}}, "force": True, "relink": True, "prompt": "absent"}]})
                    n += 1
    return cases


def execute_and_validate(run, cases):
    with get_context("fork").Pool(16) as pool:
        traces = [t for part in pool.map(_work, [cases[k::64] for k in range(64) if cases[k::64]]) for t in part]
    errs = [t for t in traces if "harness_error" in t]
    if errs:
        raise tlc.MachineryError("harness error:\n" + errs[0]["harness_error"] + json.dumps(errs[0]["case"])[:600])
    import concurrent.futures as cf

    tdir = tlc.SPECS / "trace"
    tlc.sany(str(tdir / "CheckoutTrace.tla"))
    cfg = validate.cfg_with_known(tdir / "CheckoutTrace.cfg")
    work = tlc.scratch_dir("cov-")
    groups = {}
    for t in traces:
        groups.setdefault(t["case"]["link"], []).append(t)
    jobs = []
    for link, ts in groups.items():
        shards = max(1, min(5, len(ts) // 40))
        for k in range(shards):
            jobs.append((link, ts[k::shards]))

    def one(job):
        link, ts = job
        f = os.path.join(work, f"t{id(ts)}.json")
        tlc.write_json(f, {"link": link, "traces": [{"init": t["init"], "events": t["events"]} for t in ts]})
        r = tlc.run_tlc("CheckoutTrace", cfg, workers=1, cwd=tdir, env={"TRACE_FILE": f}, coverage=False)
        if not r.ok:
            raise tlc.MachineryError(f"trace validation failed: {r.violated} {r.error}\n{r.stdout[-3000:]}")
        return [(v, ts) for v in r.printed if isinstance(v, tuple) and len(v) == 6 and v[0] in ("VERDICT", "DIVERGENCE")]

    try:
        with cf.ThreadPoolExecutor(max_workers=len(jobs)) as ex:
            outs = [x for part in ex.map(one, jobs) for x in part]
    finally:
        shutil.rmtree(work, ignore_errors=True)
        shutil.rmtree(os.path.dirname(cfg), ignore_errors=True)
    run.traces += len(traces)
    run.events += sum(len(t["events"]) for t in traces)
    seen = set()
    for (tag, prop, clause, tid, l, dev), ts in outs:
        t = ts[tid - 1]
        wit = {"case": t["case"], "event_index": l, "event": t["events"][l - 1],
               "events": [e["act"] for e in t["events"]][: l + 1]}
        if tag == "VERDICT":
            run.verdict(prop, clause, dev, wit)
        else:
            key = (clause, json.dumps(t["events"][l - 1]["act"], sort_keys=True)[:80])
            if key not in seen:
                seen.add(key)
                run.divergence({"at": clause, **wit})
    return traces


def _check(run: core.Run, focus, replay=None):
    core.assert_repo_tree()
    quick = run.tier == "quick"
    rng = random.Random(run.seed)
    if focus == "C05":
        # second clause of C05: link clean-up through the state database (specs/LinkState.tla)
        from . import linkstate

        if replay and replay.get("replay", {}).get("module") == "linkstate":
            linkstate.check(run, replay=replay["replay"]["case"])
            return run.finish()
        if not replay:
            linkstate.check(run)
    for cfg, lt in [("Checkout_quick.cfg", "copy")] + ([] if quick else [("Checkout_quick_hard.cfg", "hard"), ("Checkout_quick_sym.cfg", "sym")]):
        validate.run_design(run, "MC_Checkout", cfg, workers=16,
                            required_actions=["Begin", "RemoveDel", "PromptDel", "RemoveNew", "PromptNew", "Create", "End", "Crash"],
                            constants={"keys": ["a", "s/b"], "contents": 3, "link": lt, "prior": "absent/file/dir, copies",
                                       "cache": "every ok/none combination", "targets": 20, "flags": "force x relink x prompt x state"})
    for lt in (("hard",) if quick else ("copy", "hard", "sym")):
        validate.run_design(run, "MC_Checkout", f"Checkout_evict_{lt}.cfg", workers=16, required_actions=["Evict"],
                            constants={"link": lt, "MaxCheckouts": 2, "prior": "absent", "cache": "full, then any eviction sequence"})
    if replay:
        cases = [replay["witness"]["case"]]
    else:
        gen = generate()
        cases = directed_cases() + evict_cases() + arrive_cases() + corrupt_between_cases() + replace_cases() + dangling_cases() + mixed_link_cases() + make_cases(gen, rng, 2400 if quick else 24000, focus)
    traces = execute_and_validate(run, cases)
    run.extra["rule"] = ("TLC-generated prior workspaces (absent / file / directory, files as copies, hard links or symbolic links), "
                         "cache contents (present, absent, corrupt per object; directory object cached or not), targets (none / file / "
                         "tree) combined with force, relink, prompt (absent / declines / accepts), 3 configured link types, both store "
                         "classes, state on/off; every successful checkout is repeated; the directed corner 'directory object cached, "
                         "files not' is always included; two-checkout histories of one process with objects evicted from the cache in between")
    run.assumptions += ["reflink is unavailable on this file system (FICLONE -> EOPNOTSUPP): explored only through its fall-back to copy",
                        "prior files that are links are laid out by the harness as links to cache objects (an in-place edit through a "
                        "hard link would edit the cache itself - a user action, not a checkout action)"]
    for t in traces[:2]:
        run.add_sample({"case": t["case"], "events": [e["act"] for e in t["events"]]})
    return run.finish()


def check_C05(run, replay=None):
    return _check(run, "C05", replay)


def check_C10(run, replay=None):
    return _check(run, "C10", replay)


check = check_C05
