"""C18 - push and fetch through storage mappings.  Spec: specs/StorageMap.tla.

spec -> code : TLC enumerates the storage mappings (prefixes (), (a,sub), (b) x cache / remote slots x insertion order);
               for each the harness builds a real index (a file and two directory objects, one nested three deep), real
               stores, runs collect + push with an injected upload failure, the clean retry, then collect + fetch into
               empty caches and an index checkout from what was fetched;
code -> spec : TLC checks resolution against longest-prefix-per-role, the groups collect formed, every remote after each
               push, the counts, the caches after fetch and the checkout against the model and the C18 predicates.
"""
from __future__ import annotations

import errno
import hashlib
import json
import os
import random
import shutil
from multiprocessing import get_context

from dvc_objects.fs.local import LocalFileSystem

from .. import core, tlc, validate
from ..world import canonical_dir_bytes

# b/w has the content of a/x: one object listed by both directory objects
FILES = {"foo": b"foo\n", "a/x": b"x x\r\n", "a/sub/y": b"y\n", "a/sub/deep/z": b"", "b/w": b"x x\r\n"}
OBJ = {"foo": "of", "a/x": "ax", "a/sub/y": "ay", "a/sub/deep/z": "az", "b/w": "ax"}
DIRS = {"a": ["a/x", "a/sub/y", "a/sub/deep/z"], "b": ["b/w"]}
MD5 = {k: hashlib.md5(v).hexdigest() for k, v in FILES.items()}


def dir_objects():
    out = {}
    for d, kids in DIRS.items():
        data = canonical_dir_bytes({k[len(d) + 1:]: MD5[k] for k in kids})
        out[d] = (hashlib.md5(data).hexdigest() + ".dir", data)
    return out


DOBJ = dir_objects()
OID2OBJ = {MD5[k]: OBJ[k] for k in FILES}
OID2OBJ.update({DOBJ["a"][0]: "Da", DOBJ["b"][0]: "Db"})
OBJ2OID = {v: k for k, v in OID2OBJ.items()}
CONTENT = {MD5[k]: v for k, v in FILES.items()}
CONTENT.update({DOBJ[d][0]: DOBJ[d][1] for d in DOBJ})


class FailFS(LocalFileSystem):
    fail: set = set()
    kind = 0      # which exception class an injected failure has (rotates with the case: EIO, ENOENT, EACCES, timeout, ...)

    def put_file(self, from_file, to_info, callback=None, size=None, **kwargs):
        parts = os.fspath(to_info).split(os.sep)
        oid = parts[-2] + parts[-1]
        if OID2OBJ.get(oid) in FailFS.fail:
            from ..world import FAULT_KINDS

            raise FAULT_KINDS[FailFS.kind % len(FAULT_KINDS)](to_info)
        kw = dict(kwargs)
        if callback is not None:
            kw["callback"] = callback
        return super().put_file(from_file, to_info, size=size, **kw)


def listing(odb_path):
    out = []
    if not os.path.isdir(odb_path):
        return out
    for d1 in os.listdir(odb_path):
        p1 = os.path.join(odb_path, d1)
        if len(d1) != 2 or not os.path.isdir(p1):
            continue
        for name in os.listdir(p1):
            oid = d1 + name
            fp = os.path.join(p1, name)
            if not os.path.isfile(fp) or name.endswith(".tmp"):
                continue
            with open(fp, "rb") as fh:
                ok = fh.read() == CONTENT.get(oid)
            out.append(OID2OBJ.get(oid, "?" + oid) if ok else "corrupt:" + OID2OBJ.get(oid, oid))
    return sorted(out)


def run_case(case):
    import logging

    logging.disable(logging.CRITICAL)
    from dvc_data.hashfile.db import HashFileDB
    from dvc_data.hashfile.db.local import LocalHashFileDB
    from dvc_data.hashfile.hash_info import HashInfo
    from dvc_data.hashfile.meta import Meta
    from dvc_data.index import DataIndex, DataIndexEntry, ObjectStorage
    from dvc_data.index.checkout import apply, compare
    from dvc_data.index.collect import collect
    from dvc_data.index.fetch import fetch
    from dvc_data.index.push import push

    root = tlc.scratch_dir("c18-")
    try:
        lfs = LocalFileSystem()
        ffs = FailFS()

        def cache_odb(name, gen):
            # (caches have a temporary directory too, as in a project: an index of "what the store holds" can be kept for them)
            return LocalHashFileDB(lfs, os.path.join(root, f"{name}-{gen}"), tmp_dir=os.path.join(root, f"tmp-{name}-{gen}"))

        def remote_odb(name):
            return HashFileDB(ffs, os.path.join(root, name), tmp_dir=os.path.join(root, "tmp-" + name))

        remotes = {r: remote_odb(r) for r in ("R0", "R1")}
        caches = {c: cache_odb(c, 0) for c in ("C0", "C1")}
        for oid, data in CONTENT.items():
            for c in caches.values():
                c.add_bytes(oid, data)

        def make_index(cachemap):
            idx = DataIndex()
            idx[("foo",)] = DataIndexEntry(key=("foo",), meta=Meta(), hash_info=HashInfo("md5", MD5["foo"]))
            for d in DIRS:
                idx[(d,)] = DataIndexEntry(key=(d,), meta=Meta(isdir=True), hash_info=HashInfo("md5", DOBJ[d][0]))
            for p in case["order"]:
                slot = case["smap"][p]
                key = tuple(p.split("/")) if p else ()
                if case.get("helpers", True):
                    # the public registration helpers (they start from what the prefix resolves to at that moment)
                    if slot["cache"] != "-":
                        idx.storage_map.add_cache(ObjectStorage(key, cachemap[slot["cache"]]))
                    if slot["remote"] != "-":
                        idx.storage_map.add_remote(ObjectStorage(key, remotes[slot["remote"]]))
                    continue
                info = idx.storage_map._map.setdefault(key, __import__("dvc_data.index.index", fromlist=["StorageInfo"]).StorageInfo())
                if slot["cache"] != "-":
                    info.cache = ObjectStorage(key, cachemap[slot["cache"]])
                if slot["remote"] != "-":
                    info.remote = ObjectStorage(key, remotes[slot["remote"]])
            return idx

        idx = make_index(caches)
        name_of = {id(o): n for n, o in {**caches, **remotes}.items()}

        def nm(storage):
            return name_of[id(storage.odb)] if storage is not None else "-"

        resolve = {}
        for k in list(FILES) + list(DIRS):
            try:
                info = idx.storage_map[tuple(k.split("/"))]
                resolve[k] = {"cache": nm(info.cache), "remote": nm(info.remote)}
            except KeyError:
                resolve[k] = {"cache": "-", "remote": "-"}

        def obj_of(e):
            return OID2OBJ.get(e.hash_info.value, "?") if e.hash_info else None

        events = []
        groups = {}
        for rnd, F in enumerate([set(case["F"]), set()]):
            data = collect([idx], "remote", push=True)
            if rnd == 0:
                for d in data:
                    si = d.storage_map[()]
                    groups[nm(si.data)] = {"cache": nm(si.cache), "objects": sorted({obj_of(e) for _k, e in d.iteritems() if e.hash_info})}
            FailFS.fail = F
            FailFS.kind = case.get("id", 0)
            try:
                pushed, failed = push(data)
            except Exception as exc:  # noqa: BLE001 - recorded
                pushed, failed = -1, -1
                events.append({"op": "Push", "F": sorted(F), "pushed": -1, "failed": -1, "exc": type(exc).__name__,
                               "remote": {r: listing(o.path) for r, o in remotes.items()}, "cache": {}, "data_ok": True})
                continue
            finally:
                FailFS.fail = set()
            events.append({"op": "Push", "F": sorted(F), "pushed": int(pushed), "failed": int(failed),
                           "remote": {r: listing(o.path) for r, o in remotes.items()}, "cache": {}, "data_ok": True})
        # ---- fetch into empty caches with a fresh index, then check the data out of them
        fresh = {c: cache_odb(c, 1) for c in ("C0", "C1")}
        for n, o in fresh.items():
            name_of[id(o)] = n
        idx2 = make_index(fresh)
        try:
            data2 = collect([idx2], "remote")
            fetched, ffailed = fetch(data2)
            exc = None
        except Exception as e:  # noqa: BLE001
            fetched, ffailed, exc = -1, -1, type(e).__name__
        out = os.path.join(root, "out")
        errs = []
        data_ok = False
        if exc is None:
            try:
                diff = compare(None, idx2)
                apply(diff, out, lfs, storage="cache", onerror=lambda s, d, e: errs.append(d), update_meta=False)
                got = {}
                for r, _ds, fs_ in os.walk(out):
                    for f in fs_:
                        fp = os.path.join(r, f)
                        with open(fp, "rb") as fh:
                            got[os.path.relpath(fp, out)] = fh.read()
                want = {k: v for k, v in FILES.items() if resolve[k]["remote"] != "-" or any(
                    resolve[d]["remote"] != "-" for d in DIRS if k.startswith(d + "/"))}
                data_ok = all(got.get(k) == v for k, v in want.items()) and not errs
            except Exception:  # noqa: BLE001
                data_ok = False
        events.append({"op": "Fetch", "F": [], "pushed": int(fetched), "failed": int(ffailed), "remote": {},
                       "cache": {c: listing(o.path) for c, o in fresh.items()}, "data_ok": bool(data_ok), "exc": exc or ""})
        # ---- the root prefix's remote loses its objects (its index survives in the temporary directory); then ANOTHER index is
        # pushed there: a directory never pushed before and a plain file - both listing contents the lost directory `a` listed
        slot = case["smap"].get("", {})
        if slot.get("remote", "-") != "-" and slot.get("cache", "-") != "-" and not case["F"]:
            rname, cname = slot["remote"], slot["cache"]
            rpath = remotes[rname].path
            for d1 in (os.listdir(rpath) if os.path.isdir(rpath) else []):     # (nothing may have reached it at all)
                if len(d1) == 2:
                    shutil.rmtree(os.path.join(rpath, d1))
            remote2 = remote_odb(rname)       # (a new process)
            cdata = canonical_dir_bytes({"k": MD5["a/sub/y"]})
            coid = hashlib.md5(cdata).hexdigest() + ".dir"
            caches[cname].add_bytes(coid, cdata)
            idx3 = DataIndex()
            idx3[("c",)] = DataIndexEntry(key=("c",), meta=Meta(isdir=True), hash_info=HashInfo("md5", coid))
            idx3[("v",)] = DataIndexEntry(key=("v",), meta=Meta(), hash_info=HashInfo("md5", MD5["a/x"]))
            idx3.storage_map.add_cache(ObjectStorage((), caches[cname]))
            idx3.storage_map.add_remote(ObjectStorage((), remote2))
            want = {coid, MD5["a/sub/y"], MD5["a/x"]}
            try:
                p3, f3 = push(collect([idx3], "remote", push=True))
                have = {d1 + n for d1 in (os.listdir(rpath) if os.path.isdir(rpath) else []) if len(d1) == 2
                        for n in os.listdir(os.path.join(rpath, d1))}
                events.append({"op": "PushOther", "complete": want <= have, "pushed": int(p3), "failed": int(f3), "exc": ""})
            except Exception as e:  # noqa: BLE001
                events.append({"op": "PushOther", "complete": False, "pushed": -1, "failed": -1, "exc": type(e).__name__})
        return {"smap": case["smap"], "order": case["order"], "resolve": resolve, "groups": groups, "events": events, "case": case}
    finally:
        shutil.rmtree(root, ignore_errors=True)


def _work(cases):
    out = []
    for c in cases:
        try:
            out.append(run_case(c))
        except Exception:  # noqa: BLE001
            import traceback

            out.append({"harness_error": traceback.format_exc(), "case": c})
    return out


def generate():
    d = tlc.scratch_dir("gen-")
    out = os.path.join(d, "cfg.json")
    try:
        tlc.sany("GenStorageMap.tla")
        res = tlc.run_tlc("GenStorageMap", "GenStorageMap.cfg", workers=1, env={"GEN_OUT": out}, coverage=False)
        if not os.path.exists(out):
            raise tlc.MachineryError("generation failed\n" + res.stdout[-1500:])
        return json.load(open(out))["configs"]
    finally:
        shutil.rmtree(d, ignore_errors=True)


def check(run: core.Run, replay=None):
    core.assert_repo_tree()
    quick = run.tier == "quick"
    rng = random.Random(run.seed)
    validate.run_design(run, "MC_StorageMap", "StorageMap_quick.cfg", workers=16, required_actions=["Fetch"],
                        constants={"prefixes": ["()", "(a,sub)", "(b)"], "caches": 2, "remotes": 2, "orders": "every insertion order",
                                   "MaxFaults": 1})
    if replay:
        cases = [replay["witness"]["case"]]
    else:
        cfgs = generate()
        cfgs.sort(key=lambda c: json.dumps(c, sort_keys=True))
        if quick:
            cfgs = rng.sample(cfgs, min(500, len(cfgs)))
        objs = sorted(OBJ2OID)
        cases = []
        for i, c in enumerate(cfgs):
            smap = {p: s for p, s in (c["smap"].items() if isinstance(c["smap"], dict) else [])}
            F = [] if i % 3 == 0 else [objs[i % len(objs)]]
            cases.append({"id": i, "smap": smap, "order": list(c["order"]), "F": F, "helpers": i % 3 != 2})
    with get_context("fork").Pool(16) as pool:
        recs = [r for part in pool.map(_work, [cases[k::48] for k in range(48) if cases[k::48]]) for r in part]
    errs = [r for r in recs if "harness_error" in r]
    if errs:
        raise tlc.MachineryError("harness error:\n" + errs[0]["harness_error"] + json.dumps(errs[0]["case"]))
    doc = [{k: r[k] for k in ("smap", "order", "resolve", "groups", "events")} for r in recs]
    printed, stats = validate.validate_traces("StorageMapTrace", "StorageMapTrace.cfg", doc, shards=12)
    run.traces += len(recs)
    run.events += sum(len(r["events"]) + 2 for r in recs)
    seen = set()
    for v in printed:
        if not (isinstance(v, tuple) and len(v) == 6):
            continue
        tag, prop, clause, i, l, dev = v
        r = recs[i - 1]
        wit = {"case": r["case"], "resolve": r["resolve"], "groups": r["groups"], "event_index": l, "event": r["events"][l - 1]}
        if tag == "VERDICT":
            run.verdict(prop, clause, dev, wit)
        elif clause not in seen:
            seen.add(clause)
            run.divergence({"at": clause, **wit})
    run.extra.update({"rule": "TLC-generated storage mappings over prefixes (), (a,sub), (b) x {unset, C0, C1} caches x {unset, R0, R1} "
                              "remotes x every insertion order (a seeded 500 in quick, all in thorough); index = one file + two unloaded "
                              "directory objects (one nested three deep, so a prefix lies strictly inside it); push with one injected "
                              "upload failure (2 of 3 cases), clean retry, fetch into empty caches with a fresh index, index checkout "
                              "from the fetched caches", "validation": stats})
    run.assumptions += ["both caches initially hold all the data; the root prefix designates a cache and a remote",
                        "collect also sends the objects below a longer prefix to the remote of each shorter prefix: extra copies are "
                        "allowed, counts are over what collect assigned"]
    run.add_sample({k: recs[0][k] for k in ("smap", "order", "resolve", "groups", "events")})
    return run.finish()
