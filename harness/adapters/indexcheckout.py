"""C09 (and the index route of C02) - index-level checkout.  Spec: specs/IndexCheckout.tla.

spec -> code : TLC enumerates every well-formed tree over the nested path universe (GenIndexCheckout.tla); pairs
               (workspace, target) x availability x delete on/off are laid out on disk, compared and applied
               with the real code;
code -> spec : the action lists of compare(), the workspace after apply(), the error-callback calls and the
               lists of a second compare() are validated by TLC against the model and the C09 predicates.
"""
from __future__ import annotations

import hashlib
import json
import os
import zlib
import random
import shutil
import stat
from multiprocessing import get_context

from .. import core, tlc, validate

NAMES = {"p": "p", "p/q": "p/q e\u0301", "p/q/r": "p/q e\u0301/r.dir", "z": ".z z"}
REV = {v: k for k, v in NAMES.items()}
CONTENTS = {"c1": b"one\n", "c2": b"two two\r\n"}
OID = {c: hashlib.md5(b).hexdigest() for c, b in CONTENTS.items()}
REVOID = {v: k for k, v in OID.items()}


def lay_out(root, tree):
    os.makedirs(root, exist_ok=True)
    for p in sorted(tree, key=lambda x: x.count("/")):
        n = tree[p]
        fp = os.path.join(root, *NAMES[p].split("/"))
        if n["k"] == "d":
            os.makedirs(fp, exist_ok=True)
        elif n["k"] == "f" and n["c"] == "dangling":
            os.makedirs(os.path.dirname(fp), exist_ok=True)
            os.symlink(os.path.join(root, "..", "cache", "00", "gone"), fp)  # a link whose cache object is gone
        elif n["k"] == "f":
            os.makedirs(os.path.dirname(fp), exist_ok=True)
            with open(fp, "wb") as fh:
                fh.write(CONTENTS[n["c"]])
            os.chmod(fp, 0o755 if n["x"] else 0o644)


def walk(root):
    out = {}
    for r, ds, fs_ in os.walk(root):
        for d in ds:
            rel = os.path.relpath(os.path.join(r, d), root)
            out[REV.get(rel, "?" + rel)] = {"k": "d", "c": "", "x": False}
        for f in fs_:
            fp = os.path.join(r, f)
            rel = os.path.relpath(fp, root)
            if os.path.islink(fp) and not os.path.exists(fp):
                out[REV.get(rel, "?" + rel)] = {"k": "f", "c": "dangling", "x": False}
                continue
            with open(fp, "rb") as fh:
                c = REVOID.get(hashlib.md5(fh.read()).hexdigest(), "other")
            out[REV.get(rel, "?" + rel)] = {"k": "f", "c": c, "x": bool(os.stat(fp).st_mode & stat.S_IXUSR)}
    return out


def run_case(case):
    import logging

    logging.disable(logging.CRITICAL)
    from dvc_objects.fs.local import LocalFileSystem

    from dvc_data.hashfile.db import HashFileDB
    from dvc_data.hashfile.db.local import LocalHashFileDB
    from dvc_data.index import ObjectStorage
    from dvc_data.index.build import build
    from dvc_data.index.checkout import apply, compare
    from dvc_data.index.save import md5

    root = tlc.scratch_dir("c09-")
    try:
        fs = LocalFileSystem()
        wsd, srcd = os.path.join(root, "ws"), os.path.join(root, "src")
        lay_out(wsd, case["ws"])
        lay_out(srcd, case["tgt"])
        cls = LocalHashFileDB if case.get("cls", "local") == "local" else HashFileDB
        odb = cls(fs, os.path.join(root, "cache"), type=[case.get("link", "copy")])
        for c in case["avail"]:
            odb.add_bytes(OID[c], CONTENTS[c])
        lazy = case.get("form") in ("lazy", "lazy-broken", "filestore", "filestore-prefix")
        filestore = case.get("form") in ("filestore", "filestore-prefix")
        top = wsd
        if filestore:
            # the target's data is kept as plain files: a FileStorage registered for the sub-tree `data`, either rooted at
            # that sub-tree (default prefix) or at the directory above it with an explicitly empty prefix
            from dvc_data.index import FileStorage

            wsd = os.path.join(top, "data")
            shutil.move(top, top + ".tmp")
            os.makedirs(top)
            shutil.move(top + ".tmp", wsd)
            store = os.path.join(root, "filestore")
            shutil.move(srcd, os.path.join(store, "data"))
            os.makedirs(srcd)
            new = md5(build(store, fs))
            for dp, _ds, fs_ in os.walk(os.path.join(store, "data")):
                for f in fs_:   # contents the storage cannot supply
                    with open(os.path.join(dp, f), "rb") as fh:
                        c = REVOID.get(hashlib.md5(fh.read()).hexdigest())
                    if c not in case["avail"]:
                        os.unlink(os.path.join(dp, f))
            if case["form"] == "filestore-prefix":
                new.storage_map.add_cache(FileStorage(key=("data",), fs=fs, path=store, prefix=()))
            else:
                new.storage_map.add_cache(FileStorage(key=("data",), fs=fs, path=os.path.join(store, "data")))
        elif lazy:
            # the target is ONE unloaded entry `data` pointing at a directory object in the cache; compare() expands it from
            # object storage.  The universe's paths live below ws/data; the entry `data` itself is not part of the universe.
            from dvc_data.hashfile.build import build as obuild
            from dvc_data.hashfile.meta import Meta
            from dvc_data.index import DataIndex, DataIndexEntry

            wsd = os.path.join(top, "data")
            shutil.move(top, top + ".tmp")
            os.makedirs(top)
            shutil.move(top + ".tmp", wsd)
            _staging, _meta, obj = obuild(odb, srcd, fs, "md5")
            if case.get("form") != "lazy-broken":      # (broken: the directory object the entry points at is not in storage)
                odb.add(obj.path, obj.fs, obj.oid)
            new = DataIndex()
            new[("data",)] = DataIndexEntry(key=("data",), meta=Meta(isdir=True), hash_info=obj.hash_info)
        else:
            new = md5(build(srcd, fs))
        if not filestore:
            new.storage_map.add_cache(ObjectStorage((), odb))
        shutil.rmtree(srcd)  # the target's data is available from its cache storage only

        def lists(diff):
            def key(e):
                k = e.key[1:] if lazy else e.key
                return REV.get("/".join(k), "?" + "/".join(k))

            def keys(lst):
                return [key(e) for e in lst if not (lazy and e.key == ("data",))]

            return {"files_delete": keys(diff.files_delete), "dirs_delete": keys(diff.dirs_delete),
                    "dirs_create": keys(diff.dirs_create), "files_create": keys(diff.files_create),
                    "files_chmod": keys(diff.files_chmod)}

        old = md5(build(top, fs)) if case.get("hashed", True) else build(top, fs)
        diff = compare(old, new, delete=case["delete"])
        l1 = lists(diff)
        errs = []

        def onerror(src, dest, exc):
            rel = os.path.relpath(dest, wsd)
            if rel == ".":
                errs.append("<root>")
                return
            errs.append(REV.get(rel, "?" + rel))

        crash = None
        try:
            apply(diff, top, fs, onerror=onerror, storage="cache")
        except Exception as exc:  # noqa: BLE001 - apply() must not raise; recorded as an observation
            crash = type(exc).__name__
        after = walk(wsd) if os.path.isdir(wsd) else {}
        new2 = new
        try:
            l2 = lists(compare(md5(build(top, fs)), new2, delete=case["delete"]))
        except Exception as exc:  # noqa: BLE001
            l2 = {"files_delete": ["!" + type(exc).__name__], "dirs_delete": [], "dirs_create": [], "files_create": [], "files_chmod": []}
        leftovers = [k for k in after if k.startswith("?")]
        broken = case.get("form") == "lazy-broken"
        return {"ws": case["ws"], "tgt": {} if broken else case["tgt"], "avail": case["avail"], "delete": case["delete"], "lists1": l1,
                "broken": broken, "broken_reported": "<root>" in errs,
                "after": {k: v for k, v in after.items() if not k.startswith("?")}, "errs": sorted(set(errs) - {"<root>"}), "lists2": l2,
                "crash": crash, "leftovers": leftovers, "case": case}
    finally:
        shutil.rmtree(root, ignore_errors=True)


def _work(cases):
    out = []
    for c in cases:
        try:
            out.append(run_case(c))
        except Exception:  # noqa: BLE001
            import traceback

            out.append({"harness_error": traceback.format_exc(), "case": c})
    return out


def generate():
    d = tlc.scratch_dir("gen-")
    out = os.path.join(d, "trees.json")
    try:
        tlc.sany("GenIndexCheckout.tla")
        res = tlc.run_tlc("GenIndexCheckout", "GenIndexCheckout.cfg", workers=1, env={"GEN_OUT": out}, coverage=False)
        if not os.path.exists(out):
            raise tlc.MachineryError("generation failed\n" + res.stdout[-1500:])
        trees = json.load(open(out))["trees"]
        return [{p: n for p, n in (t.items() if isinstance(t, dict) else []) if n["k"] != "-"} for t in trees]
    finally:
        shutil.rmtree(d, ignore_errors=True)


def execute_and_validate(run, cases):
    with get_context("fork").Pool(16) as pool:
        recs = [r for part in pool.map(_work, [cases[k::64] for k in range(64) if cases[k::64]]) for r in part]
    errs = [r for r in recs if "harness_error" in r]
    if errs:
        raise tlc.MachineryError("harness error:\n" + errs[0]["harness_error"])
    doc = [{**{k: r[k] for k in ("ws", "tgt", "avail", "delete", "lists1", "after", "errs", "lists2", "broken", "broken_reported")},
            "link": r["case"].get("link", "copy"), "hashed": bool(r["case"].get("hashed", True)), "crashed": r["crash"] is not None} for r in recs]
    printed, stats = validate.validate_traces("IndexCheckoutTrace", "IndexCheckoutTrace.cfg", doc, shards=16)
    run.traces += len(recs)
    run.events += 3 * len(recs)
    seen = set()
    for v in printed:
        if not (isinstance(v, tuple) and len(v) == 6):
            continue
        tag, prop, clause, i, _j, dev = v
        r = recs[i - 1]
        wit = {k: r[k] for k in ("ws", "tgt", "avail", "delete", "lists1", "after", "errs", "lists2", "crash", "leftovers")}
        wit["case"] = r["case"]
        if tag == "VERDICT":
            run.verdict(prop, clause, dev, wit)
        elif clause not in seen:
            seen.add(clause)
            run.divergence({"at": clause, **wit})
    return recs, stats


def make_cases(trees, rng, n, exhaustive=False):
    cases = []
    pairs = [(a, b) for a in trees for b in trees] if exhaustive else [(rng.choice(trees), rng.choice(trees)) for _ in range(n)]
    for i, (w, t) in enumerate(pairs):
        need = sorted({nd["c"] for nd in t.values() if nd["k"] == "f"})
        avail = need if i % 5 else rng.sample(["c1", "c2"], rng.randrange(0, 3))
        form = "lazy" if i % 5 == 2 else ("filestore", "filestore-prefix")[i % 2] if i % 5 == 4 and i % 7 else "explicit"
        if form == "lazy":
            # a directory object lists files only: the directories of the target are those its files need
            # (nor does it carry the executable bit)
            t = {p: {**nd, "x": False} for p, nd in t.items()
                 if nd["k"] == "f" or any(q.startswith(p + "/") and t[q]["k"] == "f" for q in t)}
        cases.append({"id": i, "ws": w, "tgt": t, "avail": sorted(avail), "delete": i % 4 != 3, "hashed": i % 3 != 2, "form": form,
                      "cls": ["local", "generic"][zlib.crc32(b"cls%d" % i) % 2],      # (not i % 2: `delete` follows i % 4)
                      "link": ["copy", "hardlink", "symlink"][i % 3] if i % 7 == 0 else "copy"})
    # a target directory whose directory object cannot be read, over every kind of prior workspace (for the model the
    # target then lists nothing: with delete the stale content goes, otherwise nothing happens - and the failure is reported)
    base = len(cases)
    for j in range(120):
        w, t = rng.choice(trees), rng.choice([x for x in trees if any(nd["k"] == "f" for nd in x.values())])
        cases.append({"id": base + j, "ws": w, "tgt": t, "avail": ["c1", "c2"], "delete": j % 2 == 0, "hashed": True, "form": "lazy-broken",
                      "cls": ["local", "generic"][j % 2], "link": "copy"})
    # prior workspaces holding dangling symbolic links (links whose cache object is gone)
    base = len(cases)
    for j in range(max(200, n // 6)):
        w, t = rng.choice([x for x in trees if any(nd["k"] == "f" for nd in x.values())]), rng.choice(trees)
        w = {p: dict(nd) for p, nd in w.items()}
        files = sorted(p for p, nd in w.items() if nd["k"] == "f")
        for p in files[: 1 + j % 2]:
            w[p] = {"k": "f", "c": "dangling", "x": False}
        need = sorted({nd["c"] for nd in t.values() if nd["k"] == "f"})
        # the old index is the plain build(): md5() drops entries it cannot hash, and an index that does not describe the
        # workspace is not what C09 quantifies over
        cases.append({"id": base + j, "ws": w, "tgt": t, "avail": need, "delete": j % 4 != 3, "hashed": False,
                      "cls": ["local", "generic"][j % 2], "link": ["copy", "hardlink", "symlink"][j % 3]})
    return cases


def check(run: core.Run, replay=None):
    core.assert_repo_tree()
    quick = run.tier == "quick"
    rng = random.Random(run.seed)
    validate.run_design(run, "MC_IndexCheckout", "IndexCheckout_quick.cfg", workers=16,
                        required_actions=["DoCompare", "DoApply", "DoAgain"],
                        constants={"paths": ["p", "p/q", "p/q/r", "z"], "trees": 96, "contents": 2,
                                   "pairs": "all 96 x 96", "avail": "every subset", "delete": "on/off"})
    if replay:
        cases = [replay["witness"]["case"]]
    else:
        trees = generate()
        cases = make_cases(trees, rng, 3000 if quick else 0, exhaustive=not quick)
    recs, stats = execute_and_validate(run, cases)
    run.extra.update({"rule": "pairs (prior workspace tree, target tree) of the 96 well-formed trees over p, p/q, p/q/r, z (files with 2 "
                              "contents x exec bit, empty and nested directories, file <-> directory and file <-> nested-directory "
                              "replacements at depth 1-3): a seeded 3000 in quick, all 9216 in thorough; target data available except in "
                              "every 5th case; delete off in every 4th; second compare on a freshly built and hashed index",
                      "validation": stats})
    run.assumptions += ["'makes executable entries executable' is one-directional: an entry executable in the workspace but not in the "
                        "target keeps its bit (apply only ever adds S_IEXEC)",
                        "convergence is claimed when every target file's content is available in the cache storage"]
    run.add_sample({k: recs[0][k] for k in ("ws", "tgt", "avail", "delete", "lists1", "after", "errs")})
    return run.finish()
