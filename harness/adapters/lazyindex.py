"""C17 - lazy directory loading, filtered views, fs adaptor.  Spec: specs/LazyIndex.tla.

spec -> code : random behaviours (tlc -simulate) of lookups, iteration, listing, info, views, adaptor calls and a
               hash-level diff are replayed on two real indexes over the same storage - one holding each directory
               as a single unloaded entry, one listing everything explicitly (in-memory and SQLite-backed);
code -> spec : TLC compares, call by call, the two answers, the answer to the repeated call, the set of expanded
               directories with the model, and views / listings / iteration with the reference functions of T.
"""
from __future__ import annotations

import hashlib
import json
import os
import shutil
from multiprocessing import get_context

from .. import core, tlc, validate
from ..tlaparse import to_json
from ..world import canonical_dir_bytes

FILES = {"foo": b"foo\n", "data/bar": b"bar\n", "data/sub/baz": b"baz baz\r\n", "data/sub/deep/qux": b"", "other/x": b"x\x00x",
         "top/in/a": b"a below top\n", "top/in/s/b": b"b below top\n",
         "hollow/p/q/r": b"the only file, three levels down\n"}
DIRS = ["data", "data/sub", "data/sub/deep", "other", "void", "top", "top/in", "top/in/s", "top/e",
        "hollow", "hollow/p", "hollow/p/q"]
# hollow: a directory object whose only file sits three levels down - the directories between hold no file of their own
# void, top/e: the empty directory object; top/in, top/e: lazy directories below the explicit directory `top`
LAZY = {"data": ["data/bar", "data/sub/baz", "data/sub/deep/qux"], "other": ["other/x"], "void": [],
        "top/in": ["top/in/a", "top/in/s/b"], "top/e": [], "hollow": ["hollow/p/q/r"]}
INNER = ["data/sub", "data/sub/deep", "top/in/s", "hollow/p", "hollow/p/q"]     # directories inside a directory object
EXPLICIT = ["top"]                                      # directories both indexes list themselves
FILTERS = {
    "all": lambda k: True,
    "foo": lambda k: k == ("foo",),
    "data": lambda k: k[:1] == ("data",),
    "sub": lambda k: k == ("data",) or k[:2] == ("data", "sub"),
    "other": lambda k: k[:1] == ("other",),
    "top": lambda k: k[:1] == ("top",),
}
MD5 = {k: hashlib.md5(b).hexdigest() for k, b in FILES.items()}


def T(k):
    return tuple(k.split("/")) if k else ()


class Pair:
    def __init__(self, root, backend, split=False, nested=False, filestore=False):
        from dvc_objects.fs.local import LocalFileSystem

        from dvc_data.hashfile.db import HashFileDB
        from dvc_data.hashfile.hash_info import HashInfo
        from dvc_data.hashfile.meta import Meta
        from dvc_data.index import DataIndex, DataIndexEntry, ObjectStorage

        self.fs = LocalFileSystem()
        self.odb = HashFileDB(self.fs, os.path.join(root, "odb"))
        for k, b in FILES.items():
            self.odb.add_bytes(MD5[k], b)
        self.dirhash = {}
        for d, kids in LAZY.items():
            data = canonical_dir_bytes({k[len(d) + 1:]: MD5[k] for k in kids})
            oid = hashlib.md5(data).hexdigest() + ".dir"
            self.odb.add_bytes(oid, data)
            self.dirhash[d] = oid

        # split storage: the cache holds only part of the file objects, a remote holds everything (a partially fetched
        # workspace); listings, metadata and bytes must not depend on where an object happens to be
        self.remote = None
        if split:
            self.remote = HashFileDB(self.fs, os.path.join(root, "remote"))
            for k, b in FILES.items():
                self.remote.add_bytes(MD5[k], b)
            for d, oid in self.dirhash.items():
                self.remote.add_bytes(oid, canonical_dir_bytes({k[len(d) + 1:]: MD5[k] for k in LAZY[d]}))
            for k in ("data/sub/baz", "other/x", "foo"):
                os.unlink(self.odb.oid_to_path(MD5[k]))

        # nested storage prefixes: what lives below `other` is kept by a second store registered for that prefix - BEFORE the
        # store of the root prefix is registered; the root store does not hold those objects
        self.odb_other = None
        if nested:
            self.odb_other = HashFileDB(self.fs, os.path.join(root, "odb-other"))
            for k in ["other/x"]:
                self.odb_other.add_bytes(MD5[k], FILES[k])
                os.unlink(self.odb.oid_to_path(MD5[k]))
            self.odb_other.add_bytes(self.dirhash["other"], canonical_dir_bytes({k[len("other") + 1:]: MD5[k] for k in LAZY["other"]}))
            os.unlink(self.odb.oid_to_path(self.dirhash["other"]))

        # what lives below `other` kept as plain files: a FileStorage registered for that sub-tree but rooted one level up,
        # with an explicitly empty prefix (loading the directory walks <fsroot>/other)
        self.fsroot = None
        if filestore:
            self.fsroot = os.path.join(root, "fsroot")
            for k in LAZY["other"]:
                os.makedirs(os.path.dirname(os.path.join(self.fsroot, k)), exist_ok=True)
                with open(os.path.join(self.fsroot, k), "wb") as fh:
                    fh.write(FILES[k])
            with open(os.path.join(self.fsroot, "x"), "wb") as fh:
                fh.write(b"a sibling of the sub-tree, not part of it")

        def new(name):
            idx = DataIndex.open(os.path.join(root, name + ".db")) if backend.startswith("sqlite") else DataIndex()
            if self.fsroot is not None:
                from dvc_data.index import FileStorage

                idx.storage_map.add_cache(FileStorage(key=("other",), fs=self.fs, path=self.fsroot, prefix=()))
            if self.odb_other is not None:
                idx.storage_map.add_cache(ObjectStorage(("other",), self.odb_other))
            idx.storage_map.add_cache(ObjectStorage((), self.odb))
            if self.remote is not None:
                idx.storage_map.add_remote(ObjectStorage((), self.remote))
            return idx

        self.lazy, self.explicit = new("lazy"), new("explicit")
        for idx in (self.lazy, self.explicit):
            idx[("foo",)] = DataIndexEntry(key=("foo",), meta=Meta(), hash_info=HashInfo("md5", MD5["foo"]))
        for d in LAZY:
            self.lazy[T(d)] = DataIndexEntry(key=T(d), meta=Meta(isdir=True), hash_info=HashInfo("md5", self.dirhash[d]))
            self.explicit[T(d)] = DataIndexEntry(key=T(d), meta=Meta(isdir=True), hash_info=HashInfo("md5", self.dirhash[d]), loaded=True)
        for k in FILES:
            if k != "foo":
                if filestore and k in LAZY["other"]:      # (entries loaded from plain files carry no hash)
                    self.explicit[T(k)] = DataIndexEntry(key=T(k), meta=Meta(), hash_info=None)
                    continue
                self.explicit[T(k)] = DataIndexEntry(key=T(k), meta=Meta(md5=MD5[k]), hash_info=HashInfo("md5", MD5[k]))
        for d in INNER:
            self.explicit[T(d)] = DataIndexEntry(key=T(d), meta=Meta(isdir=True), loaded=True)
        for d in EXPLICIT:
            for idx in (self.lazy, self.explicit):
                idx[T(d)] = DataIndexEntry(key=T(d), meta=Meta(isdir=True), loaded=True)
        if backend.startswith("sqlite"):
            self.lazy.commit()
            self.explicit.commit()
        if backend == "sqlite-reopened":
            # a later session: the indexes written above are opened again (nothing is cached in memory any more)
            self.lazy.close()
            self.explicit.close()
            self.lazy, self.explicit = new("lazy"), new("explicit")

    def loaded(self):
        out = []
        for d in LAZY:
            e = self.lazy._trie.get(T(d))
            if e is not None and e.loaded:
                out.append(d)
        return sorted(out)


def _proj(e):
    return {"isdir": bool(e.meta and e.meta.isdir), "hash": e.hash_info.value if e.hash_info else None}


def call(idx, op, args, pair):
    from dvc_data.fs import DataFileSystem
    from dvc_data.index.diff import diff
    from dvc_data.index.view import view

    try:
        if op == "Get":
            return {"get": _proj(idx[T(args[0])])}
        if op == "Info":
            i = idx.info(T(args[0]))
            return {"get": {"type": i["type"], "md5": i.get("md5"), "isexec": i.get("isexec")}}
        if op == "Iter":
            items = list(idx.iteritems(prefix=T(args[0]) if args[0] else None, shallow=args[1]))
            return {"keys": sorted("/".join(k) for k, _e in items), "proj": sorted(["/".join(k), _proj(e)["isdir"], _proj(e)["hash"]] for k, e in items)}
        if op == "Ls":
            return {"keys": sorted("/".join(k) for k in idx.ls(T(args[0]), detail=False))}
        if op == "ViewIter":
            v = view(idx, FILTERS[args[0]])
            return {"keys": sorted("/".join(k) for k, _e in v.iteritems())}
        if op == "ViewLs":
            v = view(idx, FILTERS[args[0]])
            return {"keys": sorted("/".join(k) for k in v.ls(T(args[1]), detail=False))}
        fs = DataFileSystem(index=idx)
        path = "/" + args[0] if args else "/"
        if op == "FsLs":
            return {"keys": sorted(p.lstrip("/") for p in fs.ls(path, detail=False))}
        if op == "FsInfo":
            i = fs.info(path)
            return {"get": {"type": i["type"], "md5": i.get("md5"), "size": i.get("size") if i["type"] == "directory" else None}}
        if op == "FsCat":
            with fs.open(path, "rb") as fh:
                data = fh.read()
            return {"bytes": hashlib.md5(data).hexdigest(), "ok": data == FILES[args[0]]}
        if op == "FsFind":
            return {"keys": sorted(p.lstrip("/") for p in fs.find(path))}
        if op == "HashDiffChanged":
            # against a copy of the same tree that differs two and three levels below the directory object `data` only;
            # unchanged entries not asked for (so the diff may skip what it KNOWS to be unchanged - a directory hash)
            other = pair.changed_copy()
            ch = sorted([c.typ, "/".join(c.key)] for c in diff(idx, other, hash_only=True, with_unchanged=False))
            return {"keys": sorted({c[1] for c in ch}), "changes": ch}
        if op == "HashDiff":
            other = pair.other_index()
            ch = sorted([c.typ, "/".join(c.key)] for c in diff(idx, other, hash_only=True, with_unchanged=True))
            return {"keys": sorted({c[1] for c in ch}), "changes": ch}
    except KeyError:
        return {"exc": "KeyError"}
    except FileNotFoundError:
        return {"exc": "FileNotFoundError"}
    except Exception as exc:  # noqa: BLE001 - the exception type is the observation
        return {"exc": type(exc).__name__}
    return {"exc": "unknown-op"}


def _nonull(x):
    # the three observations are only ever compared as wholes (C17_Transparent / C17_Idempotent): every scalar is given ONE
    # type, so that a size on one side and no size on the other is a FALSE comparison for TLC, not an evaluation error
    if x is None:
        return "none"
    if isinstance(x, int) and not isinstance(x, bool):
        return "int:%d" % x
    if isinstance(x, dict):
        return {k: _nonull(v) for k, v in x.items()}
    if isinstance(x, (list, tuple)):
        return [_nonull(v) for v in x]
    return x


def run_trace(case):
    import logging

    logging.disable(logging.CRITICAL)
    from dvc_data.hashfile.hash_info import HashInfo
    from dvc_data.hashfile.meta import Meta
    from dvc_data.index import DataIndex, DataIndexEntry

    root = tlc.scratch_dir("c17-")
    try:
        pair = Pair(root, case["backend"], split=bool(case.get("split")), nested=bool(case.get("nested")),
                    filestore=bool(case.get("filestore")))

        def other_index():
            o = DataIndex()
            o[("foo",)] = DataIndexEntry(key=("foo",), meta=Meta(), hash_info=HashInfo("md5", "0" * 32))
            o[("data",)] = DataIndexEntry(key=("data",), meta=Meta(isdir=True), hash_info=HashInfo("md5", "1" * 32 + ".dir"), loaded=True)
            o[("data", "bar")] = DataIndexEntry(key=("data", "bar"), meta=Meta(md5=MD5["data/bar"]), hash_info=HashInfo("md5", MD5["data/bar"]))
            return o

        def changed_copy():
            o = DataIndex()
            for k in FILES:
                h = MD5[k] if k != "data/sub/deep/qux" else "3" * 32
                o[T(k)] = DataIndexEntry(key=T(k), meta=Meta(), hash_info=HashInfo("md5", h))
            o[T("data/sub/new")] = DataIndexEntry(key=T("data/sub/new"), meta=Meta(), hash_info=HashInfo("md5", "4" * 32))
            for d in DIRS:
                hi = HashInfo("md5", "2" * 32 + ".dir") if d == "data" else (HashInfo("md5", pair.dirhash[d]) if d in LAZY else None)
                o[T(d)] = DataIndexEntry(key=T(d), meta=Meta(isdir=True), hash_info=hi, loaded=True)
            return o

        pair.other_index = other_index
        pair.changed_copy = changed_copy
        events = []
        # count how often a directory object is read from storage (the repeated call must not read any)
        from dvc_data.hashfile.tree import Tree

        loads = {"n": 0}
        real_load = Tree.load.__func__

        def counting_load(cls, *a, **kw):
            loads["n"] += 1
            return real_load(cls, *a, **kw)

        Tree.load = classmethod(counting_load)
        try:
            for a in case["ops"]:
                op, args = a["op"], a["args"]
                ex = call(pair.explicit, op, args, pair)
                lz = call(pair.lazy, op, args, pair)
                ld = pair.loaded()
                before = loads["n"]
                again = call(pair.lazy, op, args, pair)
                reloads = loads["n"] - before
                lz, ex, again = _nonull(lz), _nonull(ex), _nonull(again)
                events.append({"act": {"op": op, "args": args}, "lazy": lz, "explicit": ex, "again": again, "loaded": ld,
                               "reloads": reloads,
                               # reading a file through the adaptor gives the bytes held in storage (an exception is not that)
                               "content_ok": bool(lz.get("ok", op != "FsCat"))})
        finally:
            Tree.load = classmethod(real_load)
        pair.lazy.close()
        pair.explicit.close()
        return events
    finally:
        shutil.rmtree(root, ignore_errors=True)


def _work(cases):
    out = []
    for c in cases:
        try:
            out.append(run_trace(c))
        except Exception:  # noqa: BLE001
            import traceback

            out.append({"harness_error": traceback.format_exc(), "case": c})
    return out


def sim_cases(num, depth, seed):
    behs = tlc.simulate("MC_LazyIndex", "LazyIndex_sim.cfg", num=num, depth=depth, seed=seed)
    cases = []
    for i, beh in enumerate(behs):
        ops = []
        for _l, st in beh[1:]:
            a = to_json(st["act"])
            ops.append({"op": a["op"], "args": list(a["args"])})
        if ops:
            cases.append({"id": i, "ops": ops, "backend": ["sqlite", "memory", "sqlite-reopened"][i % 3], "split": i % 4 == 1,
                          "nested": i % 4 == 3})
    return cases


def directed_cases():
    """Every operation as the FIRST access to a fresh lazy index, for keys at every depth."""
    cases = []
    n = 500000
    keys = ["foo"] + DIRS + [k for k in FILES if k != "foo"]
    dirs = [""] + DIRS
    singles = [("Get", [k]) for k in keys] + [("Info", [k]) for k in keys] + [("FsInfo", [k]) for k in keys]
    singles += [(op, [d]) for op in ("Ls", "FsLs", "FsFind") for d in dirs]
    singles += [("Iter", [d, sh]) for d in dirs for sh in (False, True)]
    singles += [("ViewIter", [f]) for f in FILTERS] + [("ViewLs", [f, d]) for f in FILTERS for d in dirs]
    singles += [("FsCat", [k]) for k in FILES] + [("HashDiff", []), ("HashDiffChanged", [])]
    for backend in ("memory", "sqlite", "sqlite-reopened"):
        for op, args in singles:
            cases.append({"id": n, "ops": [{"op": op, "args": args}, {"op": "Iter", "args": ["", False]}], "backend": backend})
            n += 1
    # split storage (cache holds part of the objects, a remote all): every adaptor read as first access, and after a listing
    for op, args in [("FsCat", [k]) for k in FILES] + [("FsInfo", [k]) for k in keys] + [("FsLs", [d]) for d in dirs]:
        for first in ([], [{"op": "FsFind", "args": [""]}]):
            cases.append({"id": n, "ops": first + [{"op": op, "args": args}], "backend": "memory", "split": True})
            n += 1
    # `other` kept as plain files by a FileStorage with an explicitly empty prefix
    for backend in ("memory", "sqlite-reopened"):
        for op, args in [("Get", ["other/x"]), ("Ls", ["other"]), ("Iter", ["", False]), ("Iter", ["other", False]), ("FsCat", ["other/x"]),
                         ("FsFind", [""]), ("ViewIter", ["other"]), ("FsLs", ["other"]), ("FsInfo", ["other/x"])]:
            cases.append({"id": n, "ops": [{"op": op, "args": args}, {"op": "Iter", "args": ["", False]}, {"op": "FsCat", "args": ["other/x"]}],
                          "backend": backend, "filestore": True})
            n += 1
    # nested storage prefixes (the store of `other` registered before the root's): every operation touching `other` first
    for backend in ("memory", "sqlite-reopened"):
        for op, args in [("Get", ["other/x"]), ("Ls", ["other"]), ("Iter", ["", False]), ("Iter", ["other", False]), ("FsCat", ["other/x"]),
                         ("FsFind", [""]), ("ViewIter", ["other"]), ("ViewIter", ["all"]), ("HashDiff", []), ("FsLs", ["other"])]:
            cases.append({"id": n, "ops": [{"op": op, "args": args}, {"op": "Iter", "args": ["", False]}], "backend": backend, "nested": True})
            n += 1
    return cases


def check(run: core.Run, replay=None):
    core.assert_repo_tree()
    quick = run.tier == "quick"
    validate.run_design(run, "MC_LazyIndex", "LazyIndex_quick.cfg", workers=8,
                        constants={"keys": 20, "lazy_dirs": ["data (nested 3 deep)", "other", "void (lists nothing)", "top/in and top/e (below an explicit directory)", "hollow (its only file three levels down, nothing in between)"], "filters": list(FILTERS), "MaxSteps": 4})
    if replay:
        cases = [replay["witness"]["case"]]
    else:
        cases = directed_cases() + sim_cases(500 if quick else 5000, 8, run.seed + 1)
    with get_context("fork").Pool(16) as pool:
        traces = [t for part in pool.map(_work, [cases[k::48] for k in range(48) if cases[k::48]]) for t in part]
    order = [c for k in range(48) for c in cases[k::48]]
    errs = [t for t in traces if isinstance(t, dict)]
    if errs:
        raise tlc.MachineryError("harness error:\n" + errs[0]["harness_error"])
    printed, stats = validate.validate_traces("LazyIndexTrace", "LazyIndexTrace.cfg", traces, shards=12)
    run.traces += len(traces)
    run.events += sum(len(t) for t in traces)
    seen = set()
    for v in printed:
        if not (isinstance(v, tuple) and len(v) == 6):
            continue
        tag, prop, clause, tid, l, dev = v
        wit = {"case": order[tid - 1], "event_index": l, "event": traces[tid - 1][l - 1]}
        if tag == "VERDICT":
            run.verdict(prop, clause, dev, wit)
        else:
            key = (clause, json.dumps(traces[tid - 1][l - 1]["act"]))
            if key not in seen:
                seen.add(key)
                run.divergence({"at": clause, **wit})
    run.extra.update({"rule": "every operation (lookup, info, iteration shallow/deep with every prefix, listing, 5 prefix-closed view "
                              "filters, adaptor ls/info/cat/find, hash-level diff) as the FIRST access to a fresh lazy index and inside "
                              "random operation sequences; a directory object nested three levels deep, one whose only file sits three levels down below directories holding nothing else, a second lazy directory, an empty one, and two below an explicit "
                              "directory; "
                              "in-memory and SQLite-backed; every call repeated", "validation": stats})
    run.assumptions += ["metadata is compared with the index (a directory object carries no sizes): type, hash and exec flag",
                        "the explicit index is built by the harness from the same objects, not by loading"]
    run.add_sample({"case": order[0], "events": traces[0][:2]})
    return run.finish()
