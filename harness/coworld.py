"""A concrete world for the object-level checkout (hashfile/checkout.py) and the link records of the state
database: a cache store, a checkout path whose prior contents the harness lays out (files as copies, hard links or
symbolic links to cache objects, or foreign bytes), a target object, and observation by walking."""
from __future__ import annotations

import hashlib
import os
import shutil
import stat

from .world import canonical_dir_bytes

KEYS = {"a": "a", "s/b": "s/b é", "s/t/c": "s/t/c.dir"}
CONTENTS = {"c0": b"", "c1": b"first content\n", "c2": b"2nd content\r\n\n", "c3": b"\x00third"}
REVKEY = {v: k for k, v in KEYS.items()}


def md5(b):
    return hashlib.md5(b).hexdigest()


assert len(CONTENTS["c1"]) == len(CONTENTS["c2"])      # twins: a replacement of equal size
OID = {c: md5(b) for c, b in CONTENTS.items()}
REVOID = {v: k for k, v in OID.items()}


_PLAIN = dict(CONTENTS)
# the worlds of the legacy algorithm (md5-dos2unix): c1 and c2 are BINARY files (a NUL byte among mostly printable bytes)
# that differ in their line ends only - distinct objects, because binary content is hashed as it is
_LEGACY = {"c0": b"", "c1": b"\x00bin one\r\nmore text\r\n", "c2": b"\x00bin one\nmore text\n", "c3": b"\x00third"}
ALG = {"name": "md5"}


def _dos(b):
    """Reference md5-dos2unix for contents below one read: text (no NUL, <= 30% odd bytes in the first 512) loses its CRs."""
    head = b[:512]
    text_chars = bytes(range(32, 127)) + b"\n\r\t\f\b"
    is_text = (not head) or (b"\x00" not in head and len(head.translate(None, text_chars)) / len(head) <= 0.30)
    return md5(b.replace(b"\r\n", b"\n") if is_text else b)


def set_alg(name: str):
    """Switch this process's world to the given store algorithm (cases run one after another in a worker process)."""
    ALG["name"] = name
    CONTENTS.clear()
    CONTENTS.update(_LEGACY if name == "md5-dos2unix" else _PLAIN)
    OID.clear()
    OID.update({c: (_dos(b) if name == "md5-dos2unix" else md5(b)) for c, b in CONTENTS.items()})
    REVOID.clear()
    REVOID.update({md5(b): c for c, b in CONTENTS.items()})      # observation goes by the bytes themselves
    assert len(set(OID.values())) == len(OID)


def listing_bytes(listing: dict) -> bytes:
    return canonical_dir_bytes({KEYS[k]: OID[c] for k, c in listing.items()})


def listing_oid(listing: dict) -> str:
    return md5(listing_bytes(listing)) + ".dir"


class CoWorld:
    def __init__(self, root, store_cls="local", link="copy", with_state=False, read_only=False):
        from dvc_objects.fs.local import LocalFileSystem

        from dvc_data.hashfile.db import HashFileDB
        from dvc_data.hashfile.db.local import LocalHashFileDB
        from dvc_data.hashfile.state import State

        self.root = root
        self.fs = LocalFileSystem()
        self.path = os.path.join(root, "ws", "data")
        os.makedirs(os.path.join(root, "ws"))
        self.state = State(root_dir=os.path.join(root, "ws"), tmp_dir=os.path.join(root, "state")) if with_state else None
        cfg = {"type": [link]}
        if read_only:
            cfg["read_only"] = True     # a cache handle opened read-only: nothing is added to it, integrity checks still apply
        if self.state is not None:
            cfg["state"] = self.state
        cls = LocalHashFileDB if store_cls == "local" else HashFileDB
        if ALG["name"] != "md5":
            cfg["hash_name"] = ALG["name"]
        self.cache = cls(self.fs, os.path.join(root, "cache"), **cfg)
        self.link = link

    # ---- cache set-up ------------------------------------------------------------
    def cache_path(self, oid):
        return os.path.join(self.cache.path, oid[:2], oid[2:])

    def put_object(self, oid, data, corrupt=False):
        p = self.cache_path(oid)
        os.makedirs(os.path.dirname(p), exist_ok=True)
        with open(p, "wb") as fh:
            fh.write(data + (b"#corrupt" if corrupt else b""))
        os.chmod(p, 0o644 if corrupt else 0o444)

    def setup_cache(self, contents, listings, corrupt=()):
        for c in contents:
            self.put_object(OID[c], CONTENTS[c], corrupt=c in corrupt)
        for lst in listings:
            self.put_object(listing_oid(lst), listing_bytes(lst))

    # ---- workspace set-up ------------------------------------------------------------
    def place_file(self, fp, c, lt):
        os.makedirs(os.path.dirname(fp), exist_ok=True)
        if c == "dangling":  # a symbolic link whose cache object is gone
            os.symlink(self.cache_path("0" * 32), fp)
            return
        src = self.cache_path(OID[c])
        if os.path.exists(src):
            with open(src, "rb") as fh:
                if fh.read() != CONTENTS[c]:
                    lt = "copy"  # never lay a link to a corrupt object: the file would hold the corrupt bytes
        if lt == "hard" and os.path.exists(src) and CONTENTS[c]:
            os.link(src, fp)
        elif lt == "sym" and os.path.exists(src):
            os.symlink(src, fp)
        else:
            with open(fp, "wb") as fh:
                fh.write(CONTENTS[c])

    def setup_ws(self, ws):
        """ws = {"kind": "absent"} | {"kind": "file", "c":, "lt":} | {"kind": "dir", "files": {key: {"c":, "lt":}}}"""
        if ws["kind"] == "file":
            f = ws["files"]["."] if "files" in ws else ws
            self.place_file(self.path, f["c"], f.get("lt", "copy"))
        elif ws["kind"] == "dir":
            os.makedirs(self.path)
            for k, f in ws["files"].items():
                if k == ".":
                    continue
                self.place_file(os.path.join(self.path, *KEYS[k].split("/")), f["c"], f.get("lt", "copy"))

    # ---- observation ------------------------------------------------------------
    def link_type(self, fp):
        if os.path.islink(fp):
            dst = os.readlink(fp)
            return "sym" if dst.startswith(self.cache.path) else "sym-foreign"
        st = os.stat(fp)
        if not os.path.isfile(fp):
            return "copy"
        if st.st_nlink > 1:
            with open(fp, "rb") as fh:
                oid = md5(fh.read())
            cp = self.cache_path(oid)
            if os.path.exists(cp) and os.stat(cp).st_ino == st.st_ino:
                return "hard"
            return "hard-foreign"
        return "copy"

    def observe_file(self, fp):
        if os.path.islink(fp) and not os.path.exists(fp):  # dangling symbolic link
            st = os.lstat(fp)
            return {"c": "dangling", "lt": "sym", "writable": False, "ino": st.st_ino, "mtime_ns": st.st_mtime_ns}
        with open(fp, "rb") as fh:
            data = fh.read()
        st = os.lstat(fp)
        return {"c": REVOID.get(md5(data), "other"), "lt": self.link_type(fp),
                "writable": bool(stat.S_IMODE(os.stat(fp).st_mode) & 0o200), "ino": st.st_ino, "mtime_ns": st.st_mtime_ns}

    def observe_ws(self):
        p = self.path
        if not os.path.lexists(p):
            return {"kind": "absent", "files": {}, "dirs": []}
        if os.path.isfile(p) or os.path.islink(p) and not os.path.isdir(p):
            return {"kind": "file", "files": {"": self.observe_file(p)}, "dirs": []}
        files, dirs = {}, []
        for r, ds, fs_ in os.walk(p):
            for d in ds:
                dirs.append(os.path.relpath(os.path.join(r, d), p))
            for f in fs_:
                fp = os.path.join(r, f)
                rel = os.path.relpath(fp, p)
                files[REVKEY.get(rel, "?" + rel)] = self.observe_file(fp)
        return {"kind": "dir", "files": files, "dirs": sorted(dirs)}

    def observe_cache(self):
        out = {}
        root = self.cache.path
        if not os.path.isdir(root):
            return out
        for d1 in os.listdir(root):
            p1 = os.path.join(root, d1)
            if not os.path.isdir(p1) or len(d1) != 2:
                continue
            for name in os.listdir(p1):
                fp = os.path.join(p1, name)
                if not os.path.isfile(fp) or name.endswith(".tmp"):
                    continue
                oid = d1 + name
                with open(fp, "rb") as fh:
                    data = fh.read()
                ok = md5(data) + (".dir" if oid.endswith(".dir") else "") == oid
                prot = stat.S_IMODE(os.stat(fp).st_mode) == 0o444
                out[oid] = {"ok": ok, "prot": prot, "digest": md5(data)}
        return out

    # ---- targets ------------------------------------------------------------
    def target_obj(self, target):
        from dvc_data.hashfile.hash_info import HashInfo
        from dvc_data.hashfile.tree import Tree

        if target["kind"] == "none":
            return None
        if target["kind"] == "file":
            return self.cache.get(OID[target["c"]])
        t = Tree()
        for k, c in sorted(target["listing"].items()):
            t.add(tuple(KEYS[k].split("/")), None, HashInfo(ALG["name"], OID[c]))
        t.digest()
        if ALG["name"] != "md5":
            t.hash_info.name = ALG["name"]      # as build() does for a store of another algorithm (_build_external_tree_info)
        return t

    def checkout(self, target, force=False, relink=False, prompt="absent", sp="plain"):
        from dvc_data.hashfile.checkout import CheckoutError, LinkError, PromptError, checkout

        asked = []

        def _prompt(msg):
            asked.append(msg)
            return prompt == "accepts"

        try:
            # the caller's spelling: a trailing separator only where a directory is (or is to be) at the path
            # (a path that is to become a FILE cannot be written with one)
            dirish = target.get("kind") != "file" and (os.path.isdir(self.path) or (target.get("kind") == "tree" and not os.path.lexists(self.path)))
            spelled = self.path + os.sep if sp == "slash" and dirish else self.path
            r = checkout(spelled, self.fs, self.target_obj(target), self.cache, force=force, relink=relink,
                         state=self.state, prompt=None if prompt == "absent" else _prompt, quiet=True)
            res = {"kind": "ok", "ret": {None: "none", True: "true", False: "false"}.get(r, str(r))}
        except PromptError as exc:
            rel = os.path.relpath(exc.path, self.path)
            res = {"kind": "PromptError", "key": "" if rel == "." else REVKEY.get(rel, "?" + rel)}
        except CheckoutError as exc:
            keys = []
            for p in exc.paths:
                rel = os.path.relpath(p, self.path)
                keys.append("" if rel == "." else REVKEY.get(rel, "?" + rel))
            res = {"kind": "CheckoutError", "keys": sorted(keys)}
        except LinkError:
            res = {"kind": "LinkError"}
        except Exception as exc:  # noqa: BLE001 - the exception type is the observation
            res = {"kind": "exc", "type": type(exc).__name__, "msg": str(exc)[:120]}
        res["asked"] = len(asked)
        return res

    def close(self):
        if self.state is not None:
            self.state.close()


def rmtree(path):
    def onerr(func, p, exc):
        try:
            os.chmod(os.path.dirname(p), 0o755)
            os.chmod(p, 0o644)
            func(p)
        except OSError:
            pass

    shutil.rmtree(path, onerror=onerr)
