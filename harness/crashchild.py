"""Child process for the crash experiments (C15): runs one scenario against a store under <root> and, when asked,
dies (os._exit) right before its n-th file-system mutation under <root>.  Everything is imported before the audit
hook is armed.  Usage: python -m harness.crashchild <scenario> <root> <kill_n|-1> [half|after]
"""
from __future__ import annotations

import json
import os
import sys

WRITE_FLAGS = os.O_WRONLY | os.O_RDWR | os.O_CREAT | os.O_TRUNC | os.O_APPEND
CONTENT = {"f1": b"first file\n", "f2": b"second file, a bit longer\r\n"}
REL = {"f1": "a.txt", "f2": "b é.bin"}


def main():
    scenario, root, kill_n = sys.argv[1], sys.argv[2], int(sys.argv[3])
    half = len(sys.argv) > 4 and sys.argv[4] == "half"
    after = len(sys.argv) > 4 and sys.argv[4] == "after"
    import logging
    import shutil

    logging.disable(logging.CRITICAL)
    from dvc_objects.fs.local import LocalFileSystem

    from dvc_data.hashfile.build import build
    from dvc_data.hashfile.db.local import LocalHashFileDB
    from dvc_data.hashfile.hash_info import HashInfo
    from dvc_data.hashfile.state import State
    from dvc_data.hashfile.transfer import transfer
    from dvc_data.index.build import build as ibuild
    from dvc_data.index.save import md5 as imd5
    from dvc_data.index.save import save as isave

    fs = LocalFileSystem()
    store = os.path.join(root, "store")
    watched = (store + os.sep, os.path.join(root, "state") + os.sep, store)
    state = State(root_dir=root, tmp_dir=os.path.join(root, "state"))
    verify = scenario.endswith("_verify")      # a store opened with verify=True
    scenario = scenario[: -len("_verify")] if verify else scenario
    odb = LocalHashFileDB(fs, store, state=state, **({"verify": True} if verify else {}))
    ws = os.path.join(root, "ws")
    data = os.path.join(ws, "data")
    count = {"n": 0}
    events = []

    def under(p):
        try:
            p = os.fspath(p)
        except TypeError:
            return False
        if isinstance(p, bytes):
            p = p.decode("utf-8", "surrogateescape")
        return p.startswith(store + os.sep) or p == store

    def tick(name, path):
        if kill_n >= 0 and count["n"] == kill_n:
            os._exit(137)
        count["n"] += 1
        if kill_n < 0:
            events.append([name, os.path.relpath(os.fspath(path), root) if path else ""])

    def hook(event, args):
        if event == "open":
            path, mode, flags = args
            if isinstance(path, int) or path is None:
                return
            if (flags is not None and flags & WRITE_FLAGS) and under(path):
                tick("open", path)
        elif event in ("os.rename", "os.link", "os.symlink"):
            if under(args[1]) or under(args[0]):
                tick(event, args[1])
        elif event in ("os.chmod", "os.remove", "os.mkdir", "os.rmdir", "os.truncate"):
            if under(args[0]):
                tick(event, args[0])
        elif event == "shutil.copyfile":
            if under(args[1]):
                tick(event, args[1])

    if half:
        # a copy that dies half way: the n-th shutil.copyfile into the store writes half of the bytes and exits
        real = shutil.copyfile
        seen = {"k": 0}

        def copyfile(src, dst, *a, **kw):
            if under(dst):
                if seen["k"] == kill_n:
                    with open(src, "rb") as fi:
                        data = fi.read()
                    fd = os.open(dst, os.O_WRONLY | os.O_CREAT | os.O_TRUNC, 0o644)
                    os.write(fd, data[: max(1, len(data) // 2)])
                    os._exit(137)
                seen["k"] += 1
            return real(src, dst, *a, **kw)

        shutil.copyfile = copyfile
        import dvc_objects.fs.utils as u

        if hasattr(u, "shutil"):
            u.shutil.copyfile = copyfile
    elif after:
        # dies right AFTER its n-th open-for-write under the store has returned: the file exists (created or truncated)
        # and nothing has been written to it yet
        import builtins

        real_open = builtins.open
        seen_o = {"k": 0}

        def opener(file, mode="r", *a, **kw):
            writing = isinstance(mode, str) and any(ch in mode for ch in "wax+")
            if writing and not isinstance(file, int) and under(file):
                fobj = real_open(file, mode, *a, **kw)
                if seen_o["k"] == kill_n:
                    os._exit(137)
                seen_o["k"] += 1
                return fobj
            return real_open(file, mode, *a, **kw)

        builtins.open = opener
        import io

        io.open = opener
    else:
        sys.addaudithook(hook)

    if scenario == "stage_transfer":
        staging, _meta, obj = build(odb, data, fs, "md5")
        transfer(staging, odb, {obj.hash_info}, shallow=False)
    elif scenario == "index_save":
        idx = imd5(ibuild(ws, fs), state=state)
        isave(idx, odb=odb)
    elif scenario == "store_transfer_verify_rot":
        src = LocalHashFileDB(fs, os.path.join(root, "src"))
        with open(os.path.join(root, "src-oids.json")) as fh:
            oids = json.load(fh)
        transfer(src, odb, {HashInfo("md5", o) for o in oids}, shallow=True, verify=True)
    elif scenario in ("store_transfer", "store_transfer_named"):
        src = LocalHashFileDB(fs, os.path.join(root, "src"))
        with open(os.path.join(root, "src-oids.json")) as fh:
            oids = json.load(fh)
        if scenario.endswith("_named"):
            # the ids carry the display names dvc gives them (obj_name is for messages only; it identifies nothing)
            ids = {HashInfo("md5", o, obj_name=f"data/sub dir/item {k}") for k, o in enumerate(oids)}
        else:
            ids = {HashInfo("md5", o) for o in oids}
        transfer(src, odb, ids, shallow=True)
    elif scenario == "upload":
        staging, _meta, obj = build(odb, data, fs, "md5", upload=True)
        transfer(staging, odb, {obj.hash_info}, shallow=False)
    else:
        raise SystemExit("unknown scenario")
    state.close()
    if kill_n < 0:
        print("EVENTS " + json.dumps(events))
    os._exit(0)


if __name__ == "__main__":
    main()
