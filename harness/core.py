"""Run context of one check: evidence, verdict classification, exit code.

Verdict rule (DESIGN §3.4): a VIOLATION line is printed only for a property
predicate that TLC (or, for the few byte-level oracles, the observer) found
false on a state/result observed from the real code and whose inferred
deviation set `dev` does not intersect the open entries of known_findings.json.
"""
from __future__ import annotations

import json
import os
import sys
import time
import traceback
from pathlib import Path

VERIF = Path(__file__).resolve().parent.parent
REPO = os.environ.get("VERIF_REPO_OVERRIDE") or "/repo"
if REPO != "/repo":  # trying a seeded change in a scratch worktree: keep /verif's evidence and replays untouched
    _scratch = Path("/dev/shm") / ("verif-try-" + REPO.strip("/").replace("/", "_"))
    EVIDENCE, REPLAYS = _scratch / "evidence", _scratch / "replays"
else:
    EVIDENCE = VERIF / "evidence"
    REPLAYS = VERIF / "replays"
FINDINGS = VERIF / "known_findings.json"


def load_findings():
    if not FINDINGS.exists():
        return []
    return json.loads(FINDINGS.read_text())["findings"]


def open_devs(prop: str | None = None) -> dict:
    """id -> finding for open findings (optionally of one property)."""
    return {
        f["id"]: f
        for f in load_findings()
        if f.get("status") == "open" and (prop is None or f["property"] == prop)
    }


def known_dev_ids() -> list[str]:
    return sorted(open_devs().keys())


class Run:
    def __init__(self, prop: str, tier: str, seed: int):
        self.prop = prop
        self.tier = tier
        self.seed = seed
        self.t0 = time.time()
        self.states = 0
        self.transitions = 0
        self.traces = 0
        self.events = 0
        self.samples: list = []
        self.violations: list[dict] = []
        self.known: dict[str, dict] = {}
        self.divergences: list[dict] = []
        self.extra: dict = {}
        self.design: list[dict] = []
        self.assumptions: list[str] = []
        self.actions_covered: dict = {}
        self.machinery_errors: list[str] = []
        self.other_props: dict[str, int] = {}

    # ---- accumulation -------------------------------------------------
    def add_design(self, name: str, res, constants=None):
        from .tlc import MachineryError

        if not res.ok:
            raise MachineryError(
                f"design-level TLC run {name} failed: violated={res.violated} error={res.error}\n{res.stdout[-3000:]}"
            )
        self.states += res.distinct
        self.transitions += res.generated
        self.design.append(
            {
                "model": name,
                "distinct_states": res.distinct,
                "states_generated": res.generated,
                "depth": res.depth,
                "wall_s": round(res.wall_s, 2),
                "constants": constants or {},
                "actions": {k: list(v) for k, v in res.actions.items()},
            }
        )
        for k, v in res.actions.items():
            a = self.actions_covered.setdefault(k, 0)
            self.actions_covered[k] = a + v[1]

    def require_actions(self, res, names):
        """Vacuity guard: every named action must have been taken at least once."""
        from .tlc import MachineryError

        missing = [n for n in names if res.actions.get(n, (0, 0))[1] == 0]
        if missing:
            raise MachineryError(f"vacuity: actions never taken in design run: {missing}")

    def add_sample(self, s, limit=4):
        if len(self.samples) < limit:
            self.samples.append(s)

    def verdict(self, prop: str, clause: str, dev, witness: dict, replay: dict | None = None):
        """Record a falsified predicate."""
        dev = sorted(set(dev or []))
        if prop == "*":  # a clause every property of the specification relies on (an operation ended in an error no action predicts)
            prop = self.prop
        if prop != self.prop:
            self.other_props[prop] = self.other_props.get(prop, 0) + 1
            return
        od = open_devs(prop)
        hit = [d for d in dev if d in od]
        if hit:
            k = self.known.setdefault(hit[0], {"finding": od[hit[0]], "count": 0, "witness": witness})
            k["count"] += 1
            return
        self.violations.append({"clause": clause, "dev": dev, "witness": witness, "replay": replay})

    def divergence(self, info: dict):
        self.divergences.append(info)

    # ---- finish ---------------------------------------------------------
    def finish(self, level="model_checking") -> int:
        wall = time.time() - self.t0
        EVIDENCE.mkdir(parents=True, exist_ok=True)
        REPLAYS.mkdir(parents=True, exist_ok=True)
        lines = []
        for fid, k in sorted(self.known.items()):
            lines.append(f"KNOWN-FINDING: property={self.prop} {fid} {k['finding']['what']} (reproduced {k['count']}x)")
        seen = set()
        nviol = 0
        for i, v in enumerate(self.violations):
            key = (v["clause"], json.dumps(v["witness"], sort_keys=True, default=str)[:400])
            if key in seen:
                continue
            seen.add(key)
            nviol += 1
            if nviol > 5:
                continue
            path = REPLAYS / f"{self.prop}-{self.tier}-{nviol}.json"
            path.write_text(json.dumps({"property": self.prop, "seed": self.seed, **v}, indent=1, default=str))
            lines.append(f"VIOLATION property={self.prop} replay={path}")
            lines.append(f"  clause={v['clause']} witness={json.dumps(v['witness'], default=str)[:600]}")
        cov = {
            "states": int(self.states),
            "transitions": int(self.transitions),
            "traces_validated_against_impl": int(self.traces),
            "events_validated": int(self.events),
            "samples": self.samples or ["(none)"],
            "divergences": len(self.divergences),
            "divergence_samples": self.divergences[:3],
            "design_runs": self.design,
            "actions_covered": self.actions_covered,
            "known_findings_reproduced": {k: v["count"] for k, v in self.known.items()},
            "other_property_verdicts_seen": self.other_props,
            **self.extra,
        }
        ev = {
            "property_id": self.prop,
            "tier": self.tier,
            "seed": self.seed,
            "level": level,
            "coverage": cov,
            "assumptions": self.assumptions,
            "wall_s": round(wall, 2),
            "violations": nviol,
        }
        (EVIDENCE / f"{self.prop}.json").write_text(json.dumps(ev, indent=1, default=str))
        for ln in lines:
            print(ln)
        print(
            f"[{self.prop} {self.tier}] states={self.states} transitions={self.transitions} "
            f"traces={self.traces} events={self.events} divergences={len(self.divergences)} "
            f"violations={nviol} known={list(self.known)} wall={wall:.1f}s"
        )
        sys.stdout.flush()
        return 1 if nviol else 0


def main_wrapper(fn):
    """Run fn() -> exit code; machinery failures exit 2 without a VIOLATION line."""
    from .tlc import MachineryError

    try:
        code = fn()
    except MachineryError as exc:
        print(f"MACHINERY-FAILURE: {exc}", file=sys.stderr)
        sys.exit(2)
    except Exception:
        traceback.print_exc()
        print("MACHINERY-FAILURE: unexpected exception in harness", file=sys.stderr)
        sys.exit(2)
    sys.exit(code)


def assert_repo_tree():
    import dvc_data

    p = os.path.realpath(dvc_data.__file__)
    if not p.startswith(REPO + "/src/"):
        from .tlc import MachineryError

        raise MachineryError(f"dvc_data imported from {p}, expected {REPO}/src")
