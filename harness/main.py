"""Entry point: ./check <ID> [--tier quick|thorough] [--replay PATH]."""
from __future__ import annotations

import argparse
import importlib
import json
import os
import sys

from . import core

REGISTRY = {
    "C13": "statecache",
    "C14": "hashstream",
    "C15": "addpipeline",
    "C16": "addpipeline",
    "C17": "lazyindex",
    "C18": "storagemap",
    "C19": "treemerge",
    "C20": "serialize",
    "C01": "objectstore",
    "C02": "roundtrip",
    "C03": "treecanon",
    "C04": "objectstore",
    "C05": "checkoutobj",
    "C06": "objectstore",
    "C07": "objectstore",
    "C08": "indexdiff",
    "C09": "indexcheckout",
    "C10": "checkoutobj",
    "C11": "objectstore",
    "C12": "objectstore",
}


def main():
    ap = argparse.ArgumentParser()
    ap.add_argument("prop")
    ap.add_argument("--tier", default=os.environ.get("VERIF_TIER") or "quick", choices=["quick", "thorough"])
    ap.add_argument("--replay")
    args = ap.parse_args()
    if os.environ.get("VERIF_TIER") in ("quick", "thorough"):
        args.tier = os.environ["VERIF_TIER"]
    seed = int(os.environ.get("VERIF_SEED", "0") or 0)
    if args.prop not in REGISTRY:
        print(f"no check registered for {args.prop}", file=sys.stderr)
        sys.exit(2)
    os.environ.setdefault("DVC_DATA_VERIF", "1")

    def go():
        mod = importlib.import_module(f"harness.adapters.{REGISTRY[args.prop]}")
        run = core.Run(args.prop, args.tier, seed)
        replay = json.load(open(args.replay)) if args.replay else None
        fn = getattr(mod, f"check_{args.prop}", None) or mod.check
        return fn(run, replay=replay)

    core.main_wrapper(go)


if __name__ == "__main__":
    main()
