#!/bin/sh
# run_seeded.sh <name> [tier]: apply /verif/seeded/<name>/patch.diff to /repo, run the property's check, undo.
NAME="$1"; TIER="${2:-quick}"
D=/verif/seeded/$NAME
PROP=$(python3 -c "import json;print(json.load(open('$D/meta.json'))['property'])")
git -C /repo diff --quiet || { echo "/repo has local changes, refusing"; exit 2; }
git -C /repo apply $D/patch.diff || exit 2
cp /verif/evidence/$PROP.json /tmp/ev.$PROP.bak 2>/dev/null
cd /verif && ./check $PROP --tier $TIER > /tmp/seeded.$NAME.out 2>&1; RC=$?
git -C /repo checkout -- .
cp /tmp/ev.$PROP.bak /verif/evidence/$PROP.json 2>/dev/null
grep -E "^VIOLATION|^KNOWN|^\[C|MACHINERY" /tmp/seeded.$NAME.out | head -8
echo "seeded=$NAME property=$PROP exit=$RC"
