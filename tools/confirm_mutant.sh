#!/bin/sh
# confirm_mutant.sh <worktree> <name> <prop>: confirm a seeded change in its scratch worktree
# (tests pass with it, demo fails with it / passes without it), store it under /verif/seeded/<name>/
# and remove the worktree.
set -u
WT="$1"; NAME="$2"; PROP="$3"
cd "$WT" || exit 2
DEMO=$(ls demo_*.py | head -1)
git diff -- src > /tmp/$NAME.patch
[ -s /tmp/$NAME.patch ] || cp patch.diff /tmp/$NAME.patch
git checkout -q -- src
git apply --check /tmp/$NAME.patch || { echo "PATCH DOES NOT APPLY"; exit 1; }
PYTHONPATH=$WT/src /venv/bin/python $DEMO >/tmp/$NAME.clean.out 2>&1; C=$?
git apply /tmp/$NAME.patch
PYTHONPATH=$WT/src /venv/bin/python $DEMO >/tmp/$NAME.mut.out 2>&1; M=$?
T=$(PYTHONPATH=$WT/src /venv/bin/python -m pytest -q -p no:cacheprovider --timeout=900 2>&1 | tail -1)
echo "demo clean exit=$C mutant exit=$M ; tests: $T"
case "$T" in *"164 passed"*) ;; *) echo "TESTS DO NOT PASS"; exit 1;; esac
[ "$C" = 0 ] && [ "$M" != 0 ] || { echo "DEMO DOES NOT DISCRIMINATE"; exit 1; }
D=/verif/seeded/$NAME; mkdir -p $D
cp /tmp/$NAME.patch $D/patch.diff; cp $DEMO $D/; for n in NOTES_i.md NOTES_h.md NOTES_g.md NOTES_f.md NOTES_e.md NOTES_d.md NOTES_c.md NOTES_b.md NOTES.md; do [ -f $n ] && cp $n $D/NOTES.md && break; done
cat > $D/meta.json <<EOM
{"property": "$PROP", "name": "$NAME", "confirmed": "suite: $T; demo exit clean=$C mutant=$M (scratch worktree $WT)",
 "needs": "see NOTES.md", "detected_by": null}
EOM
cd / && git -C /repo worktree remove --force "$WT" && echo "stored $D, worktree removed"
