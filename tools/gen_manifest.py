#!/usr/bin/env python3
"""Regenerate MANIFEST.json from harness/main.py's REGISTRY and tools/manifest_meta.json."""
import json, re, subprocess
from pathlib import Path
V = Path(__file__).resolve().parent.parent
reg = re.search(r"REGISTRY = \{(.*?)\}", (V / "harness/main.py").read_text(), re.S).group(1)
claimed = dict(re.findall(r'"(C\d+)":\s*"(\w+)"', reg))
meta = json.loads((V / "tools/manifest_meta.json").read_text())
props = [json.loads(l) for l in (V / "properties.jsonl").read_text().splitlines() if l.strip()]
commits = subprocess.run(["git", "-C", "/repo", "log", "--format=%h %s"], capture_output=True, text=True).stdout.splitlines()
hook_commits = [c.split()[0] for c in commits if c.split(" ", 1)[1].startswith("verif-hook:")]
checks, na = [], []
for p in props:
    pid = p["id"]
    m = meta.get(pid, {})
    if pid in claimed:
        checks.append({
            "property_id": pid,
            "quick_cmd": f"./check {pid} --tier quick",
            "thorough_cmd": f"./check {pid} --tier thorough",
            "evidence_file": f"/verif/evidence/{pid}.json",
            "replay_cmd_template": f"./check {pid} --replay {{path}}",
            "engine": "tlc",
            "level_claimed": {"category": "model_checking", "text": m["text"], "design_ref": m.get("design_ref", "DESIGN.md §6 " + pid)},
            "level_note": m["note"],
            "technique": m["technique"],
        })
    else:
        na.append({"property_id": pid, "reason": m.get("na_reason", "specification module for this property not built yet (DESIGN.md §10 build order); not claimed rather than checked by another technique")})
man = {
    "version": 1,
    "setup_cmd": "./setup.sh",
    "hooks": {
        "guard": "DVC_DATA_VERIF",
        "enable": "no source hooks: checks run /repo/src directly (PYTHONPATH=/repo/src) and observe at the API / file-system boundary; DVC_DATA_VERIF=1 only switches on out-of-tree tracing helpers",
        "baseline_off_cmd": "cd /repo && env -u DVC_DATA_VERIF /venv/bin/python -m pytest -ra -q -p no:cacheprovider --timeout=900 --continue-on-collection-errors",
        "source_commits": hook_commits,
        "add_only": True,
    },
    "engines": [{"name": "tlc", "path": "/verif/check", "serves_properties": sorted(claimed),
                 "kind_free_text": "explicit TLA+ specifications (specs/*.tla) model-checked by TLC; behaviours replayed into the real code and every observed trace validated by TLC against trace specifications (specs/trace/*.tla)"}],
    "checks": checks,
    "not_applicable": na,
    "notes": "See DESIGN.md. fix: commits in /repo and known findings are listed in known_findings.json.",
}
(V / "MANIFEST.json").write_text(json.dumps(man, indent=1) + "\n")
print("claimed", sorted(claimed), "na", len(na))
