#!/bin/sh
# try_seeded.sh <name> [tier]: run the property's check against a scratch worktree of /repo with
# /verif/seeded/<name>/patch.diff applied (VERIF_REPO_OVERRIDE); /repo and /verif/evidence are left untouched,
# so several of these may run side by side.  Prints the verdict lines and the exit code.
NAME="$1"; TIER="${2:-quick}"
D=/verif/seeded/$NAME
PROP="${3:-$(python3 -c "import json;print(json.load(open('$D/meta.json'))['property'])")}"
WT=/tmp/try/$NAME.$PROP
rm -rf "$WT"; mkdir -p /tmp/try
git -C /repo worktree add --detach "$WT" HEAD >/dev/null 2>&1 || exit 2
git -C "$WT" apply "$D/patch.diff" || { git -C /repo worktree remove --force "$WT"; exit 2; }
cd /verif && VERIF_REPO_OVERRIDE="$WT" ./check "$PROP" --tier "$TIER" > /tmp/try/$NAME.$PROP.out 2>&1; RC=$?
git -C /repo worktree remove --force "$WT"
rm -rf "/dev/shm/verif-try-$(echo "$WT" | sed "s|^/||; s|/|_|g")"
grep -E "^VIOLATION|^KNOWN|^\[C|MACHINERY" /tmp/try/$NAME.$PROP.out | cut -c1-200 | head -6
grep -E "^  clause=" /tmp/try/$NAME.$PROP.out | sed 's/ witness=.*//' | sort | uniq -c | head -8
echo "seeded=$NAME property=$PROP exit=$RC"
