#!/usr/bin/env python3
"""Run every seeded change under /verif/seeded against the check of its property and record the outcome in its
meta.json.  Each change is applied in its own scratch worktree of /repo (VERIF_REPO_OVERRIDE, see ./check): /repo and
/verif/evidence stay untouched, and three changes are tried side by side.
Usage: tools/sweep_seeded.py [name ...]      (SWEEP_WORKERS=n: how many at a time; the C05 / C10 checks are heavy - sweep those with 1)"""
import concurrent.futures as cf
import json
import os
import subprocess
import sys
import time

V = "/verif"


def one(n):
    d = f"{V}/seeded/{n}"
    meta = json.load(open(f"{d}/meta.json"))
    prop = meta["property"]
    wt = f"/tmp/try/sweep-{n}"
    subprocess.run(["rm", "-rf", wt])
    os.makedirs("/tmp/try", exist_ok=True)
    if subprocess.run(["git", "-C", "/repo", "worktree", "add", "--detach", wt, "HEAD"], capture_output=True).returncode:
        return n, {"error": "worktree"}
    try:
        if subprocess.run(["git", "-C", wt, "apply", f"{d}/patch.diff"]).returncode:
            det = {"error": "patch does not apply"}
        else:
            t = time.time()
            r = subprocess.run([f"{V}/check", prop, "--tier", "quick"], cwd=V, capture_output=True, text=True,
                               env={**os.environ, "VERIF_REPO_OVERRIDE": wt})
            lines = [l for l in r.stdout.splitlines() if l.startswith("VIOLATION") or l.startswith("  clause=")]
            clauses = sorted({l.split("clause=")[1].split(" ")[0] for l in lines if "clause=" in l})
            summ = [l for l in r.stdout.splitlines() if l.startswith("[")]
            det = {"check": prop, "tier": "quick", "exit": r.returncode, "clauses": clauses,
                   "summary": summ[-1] if summ else "", "wall_s": round(time.time() - t, 1)}
    finally:
        subprocess.run(["git", "-C", "/repo", "worktree", "remove", "--force", wt], capture_output=True)
        subprocess.run(["rm", "-rf", "/dev/shm/verif-try-" + wt.strip("/").replace("/", "_")])
    meta["detected_by"] = det
    json.dump(meta, open(f"{d}/meta.json", "w"), indent=1)
    return n, det


names = sys.argv[1:] or sorted(os.listdir(f"{V}/seeded"))
with cf.ThreadPoolExecutor(max_workers=int(os.environ.get("SWEEP_WORKERS", "3"))) as ex:
    for n, det in ex.map(one, names):
        print(n, det.get("exit"), det.get("clauses"), det.get("error", ""), flush=True)
