#!/usr/bin/env python3
"""Run every seeded change under /verif/seeded against the check of its property (apply to /repo, check, undo) and
record the outcome in its meta.json.  Usage: tools/sweep_seeded.py [name ...]"""
import json, os, subprocess, sys, time
V = "/verif"
names = sys.argv[1:] or sorted(os.listdir(f"{V}/seeded"))
for n in names:
    d = f"{V}/seeded/{n}"
    meta = json.load(open(f"{d}/meta.json"))
    prop = meta["property"]
    if subprocess.run(["git", "-C", "/repo", "diff", "--quiet"]).returncode:
        sys.exit("/repo has local changes")
    if subprocess.run(["git", "-C", "/repo", "apply", f"{d}/patch.diff"]).returncode:
        meta["detected_by"] = {"error": "patch does not apply"}
    else:
        ev = f"{V}/evidence/{prop}.json"
        bak = open(ev).read() if os.path.exists(ev) else None
        t = time.time()
        r = subprocess.run([f"{V}/check", prop, "--tier", "quick"], cwd=V, capture_output=True, text=True)
        subprocess.run(["git", "-C", "/repo", "checkout", "--", "."])
        lines = [l for l in r.stdout.splitlines() if l.startswith("VIOLATION") or l.startswith("  clause=")]
        clauses = sorted({l.split("clause=")[1].split(" ")[0] for l in lines if "clause=" in l})
        summ = [l for l in r.stdout.splitlines() if l.startswith("[")]
        meta["detected_by"] = {"check": prop, "tier": "quick", "exit": r.returncode, "clauses": clauses,
                               "summary": summ[-1] if summ else "", "wall_s": round(time.time() - t, 1)}
        if bak is not None:
            open(ev, "w").write(bak)
    json.dump(meta, open(f"{d}/meta.json", "w"), indent=1)
    print(n, meta["detected_by"].get("exit"), meta["detected_by"].get("clauses"), flush=True)
subprocess.run("rm -f /verif/replays/*.json", shell=True)
