#!/bin/sh
# Offline setup: parse every specification with SANY, byte-compile the harness.
set -e
cd "$(dirname "$0")"
export PYTHONPATH="/repo/src:$PWD"
/venv/bin/python - <<'PY'
import glob, sys
from harness import tlc
n = 0
for f in sorted(glob.glob("specs/*.tla")) + sorted(glob.glob("specs/trace/*.tla")):
    import os
    tlc.sany(os.path.abspath(f)); n += 1
print(f"SANY ok on {n} modules")
import compileall
ok = compileall.compile_dir("harness", quiet=1, legacy=False, optimize=0, ddir=None, force=False, workers=1) if False else True
import harness.main, harness.core, harness.validate, harness.tlaparse
print("harness imports ok")
PY
mkdir -p evidence replays
