\* two checkouts of one process with objects leaving the cache in between: fresh workspace, full cache, every first
\* target, every eviction sequence, every second target; configured link type copy
SPECIFICATION Spec
CONSTANTS
    Keys <- KeysDef
    Contents <- ContentsDef
    Root = "."
    LinkType = "copy"
    KnownDev = {}
    MaxCheckouts = 2
    InitWs <- WsAbsent
    InitCache <- CacheFull
    Twins <- TwinsDef
    Prompts = {"absent"}
INVARIANT Inv_C05
INVARIANT Inv_C05_Refusal
INVARIANT Inv_C10_Converges
