------------------------------ MODULE IndexStore ------------------------------
(***************************************************************************)
(* The persistent forms of a data index (index/index.py: DataIndexTrie,     *)
(* DataIndex.open/commit/close/_load; index/serialize.py: write_json,       *)
(* read_json, write_db, read_db).  Property C20.                            *)
(*                                                                         *)
(* The SQLite-backed index keeps three things apart:                        *)
(*   live - what reads return in this session (the cached entry objects),   *)
(*   rows - the serialised rows of the open transaction,                    *)
(*   disk - the committed rows.                                             *)
(* A value is serialised when it is set; lazy loading of a directory        *)
(* mutates the entry (loaded flag), re-stores it, adds the listed children   *)
(* and commits.  Reopening shows the committed rows.                        *)
(***************************************************************************)
EXTENDS Naturals, FiniteSets, TLC

CONSTANTS Keys, LazyDirs, Kids, Entries, KidEntry, MaxSteps
\* Kids[d] = keys added when lazy directory d is loaded; Entries = entry values offered to Set
Nil == [meta |-> "nil", hash |-> "nil", loaded |-> "nil"]
Listing == [Keys -> Entries \cup {Nil} \cup {KidEntry}]

VARIABLES live, rows, disk, attached, committedView, exported, act, steps, dirty
vars == <<live, rows, disk, attached, committedView, exported, act, steps, dirty>>

Empty == [k \in Keys |-> Nil]
\* serialisable projection: empty metadata and no metadata are the same thing on disk
Proj(e) == IF e = Nil THEN Nil ELSE [meta |-> IF e.meta = "empty" THEN "none" ELSE e.meta, hash |-> e.hash, loaded |-> e.loaded]
ProjL(l) == [k \in Keys |-> Proj(l[k])]

Unloaded(l, d) == d \in LazyDirs /\ l[d] # Nil /\ l[d].meta = "d" /\ l[d].hash = "dirhash" /\ l[d].loaded # "T"
\* DataIndex._load on every unloaded directory that a storage can supply
LoadAll(l) ==
    [k \in Keys |->
        IF Unloaded(l, k) THEN [l[k] EXCEPT !.loaded = "T"]
        ELSE IF \E d \in LazyDirs : Unloaded(l, d) /\ k \in Kids[d] THEN KidEntry
        ELSE l[k]]
Loads(l) == \E d \in LazyDirs : Unloaded(l, d)

Tick == steps' = steps + 1 /\ steps < MaxSteps

Set(k, e) ==
    /\ Tick
    /\ e.hash = "dirhash" => k \in LazyDirs       \* directory objects are offered at the lazy keys only
    /\ live' = [live EXCEPT ![k] = e] /\ rows' = [rows EXCEPT ![k] = e]
    /\ act' = [op |-> "Set", k |-> k, e |-> e] /\ dirty' = TRUE
    /\ UNCHANGED <<disk, attached, committedView, exported>>

\* the entry the index handed out is completed in place (metadata / hash / loaded flag filled in later on the very same
\* object) and stored again under its key: as good as setting a new value
SetInPlace(k, e) ==
    /\ Tick /\ live[k] # Nil
    /\ e.hash = "dirhash" => k \in LazyDirs
    /\ live' = [live EXCEPT ![k] = e] /\ rows' = [rows EXCEPT ![k] = e]
    /\ act' = [op |-> "SetInPlace", k |-> k, e |-> e] /\ dirty' = TRUE
    /\ UNCHANGED <<disk, attached, committedView, exported>>

Del(k) ==
    /\ Tick /\ live[k] # Nil
    /\ live' = [live EXCEPT ![k] = Nil] /\ rows' = [rows EXCEPT ![k] = Nil]
    /\ act' = [op |-> "Del", k |-> k] /\ dirty' = TRUE
    /\ UNCHANGED <<disk, attached, committedView, exported>>

\* another SQLite-backed index of the same process (another file) gets a different entry under the same key: this
\* index does not care
Elsewhere(k, e) ==
    /\ Tick
    /\ act' = [op |-> "Elsewhere", k |-> k, e |-> e]
    /\ UNCHANGED <<live, rows, disk, attached, committedView, exported, dirty>>

\* iteritems(): loads lazily; a load re-stores the directory entry and commits
Iter ==
    /\ Tick
    /\ IF attached /\ Loads(live)
       THEN /\ live' = LoadAll(live) /\ rows' = LoadAll(live)
            /\ disk' = LoadAll(live) /\ committedView' = LoadAll(live) /\ dirty' = FALSE
       ELSE UNCHANGED <<live, rows, disk, committedView, dirty>>
    /\ act' = [op |-> "Iter"]
    /\ UNCHANGED <<attached, exported>>

Commit ==
    /\ Tick
    /\ disk' = rows /\ committedView' = live /\ dirty' = FALSE
    /\ act' = [op |-> "Commit"]
    /\ UNCHANGED <<live, rows, attached, exported>>

\* close() and DataIndex.open() again: the committed rows, no storage attached
\* The statement speaks of commit, close and reopen: closing with uncommitted rows is outside it
\* (observed: sqltrie makes part of them durable).
Reopen ==
    /\ Tick /\ ~dirty
    /\ live' = disk /\ rows' = disk /\ attached' = FALSE
    /\ act' = [op |-> "Reopen"]
    /\ UNCHANGED <<disk, committedView, exported, dirty>>

Attach ==
    /\ Tick /\ ~attached
    /\ attached' = TRUE
    /\ act' = [op |-> "Attach"]
    /\ UNCHANGED <<live, rows, disk, committedView, exported, dirty>>

\* write_json / write_db followed by read_json / read_db into a fresh index;
\* writing iterates (and therefore loads) the index
Export(kind) ==
    /\ Tick
    /\ LET l == IF attached /\ Loads(live) THEN LoadAll(live) ELSE live
       IN /\ exported' = [kind |-> kind, listing |-> ProjL(l)]
          /\ live' = l /\ rows' = l
          /\ IF attached /\ Loads(live) THEN disk' = l /\ committedView' = l /\ dirty' = FALSE
                                       ELSE UNCHANGED <<disk, committedView, dirty>>
    /\ act' = [op |-> "Export", kind |-> kind]
    /\ UNCHANGED attached

Next ==
    \/ \E k \in Keys, e \in Entries : Set(k, e)
    \/ \E k \in Keys, e \in Entries : SetInPlace(k, e)
    \/ \E k \in Keys : Del(k)
    \/ \E k \in Keys, e \in Entries : Elsewhere(k, e)
    \/ Iter \/ Commit \/ Reopen \/ Attach
    \/ \E kind \in {"json", "db"} : Export(kind)

Init == /\ live = Empty /\ rows = Empty /\ disk = Empty /\ attached = TRUE
        /\ committedView = Empty /\ exported = [kind |-> "none", listing |-> Empty]
        /\ act = [op |-> "Init"] /\ steps = 0 /\ dirty = FALSE
Spec == Init /\ [][Next]_vars

(******************************* C20 predicates *****************************)
\* what a session shows right after reopening is what it showed when it was committed
C20_Reopen(viewAtCommit, viewAfterReopen) == ProjL(viewAfterReopen) = ProjL(viewAtCommit)
\* what was written to a file form reads back as the same keys and projections
C20_Export(written, readBack) == readBack = written
Inv_Reopen == act.op = "Reopen" => C20_Reopen(committedView, live)
\* in a session reads return what was last set (cache coherent with rows)
Inv_Coherent == ProjL(live) = ProjL(rows)
=============================================================================
