-------------------------- MODULE GenIndexCheckout --------------------------
EXTENDS MC_IndexCheckout, Json, IOUtils
Out(_u) == [trees |-> Trees]
ASSUME JsonSerialize(IOEnv.GEN_OUT, Out(0))
GenInit == pc = "gen" /\ ws = [p \in Paths |-> Nope] /\ tgt = ws /\ avail = {} /\ del = FALSE /\ link = "copy" /\ hashed = TRUE /\ crash = FALSE /\ dev = {} /\ lists = <<>> /\ errs = {} /\ act = <<>>
GenNext == UNCHANGED vars
=============================================================================
