---------------------------- MODULE MC_LazyIndex ----------------------------
EXTENDS LazyIndex
\* ("void" is a directory object that lists nothing - the object every tracked empty directory shares)
KeysDef == {"foo", "data", "data/bar", "data/sub", "data/sub/baz", "data/sub/deep", "data/sub/deep/qux", "other", "other/x", "void"}
ParentDef == [k \in KeysDef |->
    CASE k \in {"foo", "data", "other", "void"} -> ""
      [] k \in {"data/bar", "data/sub"} -> "data"
      [] k \in {"data/sub/baz", "data/sub/deep"} -> "data/sub"
      [] k = "data/sub/deep/qux" -> "data/sub/deep"
      [] k = "other/x" -> "other"]
IsDirDef == [k \in KeysDef |-> k \in {"data", "data/sub", "data/sub/deep", "other", "void"}]
LazyDef == {"data", "other", "void"}
FiltersDef == {"all", "foo", "data", "sub", "other"}
FilterKeysDef == [f \in FiltersDef |->
    CASE f = "all" -> KeysDef
      [] f = "foo" -> {"foo"}
      [] f = "data" -> {k \in KeysDef : k = "data" \/ Under(k, "data")}
      [] f = "sub" -> {"data", "data/sub", "data/sub/baz", "data/sub/deep", "data/sub/deep/qux"}
      [] f = "other" -> {"other", "other/x"}]
=============================================================================
