---------------------------- MODULE MC_LazyIndex ----------------------------
EXTENDS LazyIndex
\* ("void" is a directory object that lists nothing - the object every tracked empty directory shares)
KeysDef == {"foo", "data", "data/bar", "data/sub", "data/sub/baz", "data/sub/deep", "data/sub/deep/qux", "other", "other/x", "void",
            \* lazy directories below an explicit directory: one with files at two depths, one that lists nothing
            "top", "top/in", "top/in/a", "top/in/s", "top/in/s/b", "top/e",
            \* a directory object whose only file sits three levels down: the directories between hold no file of their own
            "hollow", "hollow/p", "hollow/p/q", "hollow/p/q/r"}
ParentDef == [k \in KeysDef |->
    CASE k \in {"foo", "data", "other", "void", "top", "hollow"} -> ""
      [] k = "hollow/p" -> "hollow"
      [] k = "hollow/p/q" -> "hollow/p"
      [] k = "hollow/p/q/r" -> "hollow/p/q"
      [] k \in {"top/in", "top/e"} -> "top"
      [] k \in {"top/in/a", "top/in/s"} -> "top/in"
      [] k = "top/in/s/b" -> "top/in/s"
      [] k \in {"data/bar", "data/sub"} -> "data"
      [] k \in {"data/sub/baz", "data/sub/deep"} -> "data/sub"
      [] k = "data/sub/deep/qux" -> "data/sub/deep"
      [] k = "other/x" -> "other"]
IsDirDef == [k \in KeysDef |-> k \in {"data", "data/sub", "data/sub/deep", "other", "void", "top", "top/in", "top/in/s", "top/e",
                                        "hollow", "hollow/p", "hollow/p/q"}]
LazyDef == {"data", "other", "void", "top/in", "top/e", "hollow"}
\* the changed copy: data/sub/deep/qux has other bytes, data/sub/new is added (so the directory object `data` differs)
ChangedDef == {"data", "data/sub/deep/qux", "data/sub/new"}
ChangedLazyDef == {"data"}
FiltersDef == {"all", "foo", "data", "sub", "other", "top"}
FilterKeysDef == [f \in FiltersDef |->
    CASE f = "all" -> KeysDef
      [] f = "foo" -> {"foo"}
      [] f = "data" -> {k \in KeysDef : k = "data" \/ Under(k, "data")}
      [] f = "sub" -> {"data", "data/sub", "data/sub/baz", "data/sub/deep", "data/sub/deep/qux"}
      [] f = "other" -> {"other", "other/x"}
      [] f = "top" -> {k \in KeysDef : k = "top" \/ Under(k, "top")}]
=============================================================================
