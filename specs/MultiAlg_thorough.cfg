\* two local stores (md5-dos2unix and md5) sharing one hash-state cache; every history of <= 5 edits / adds (3 code paths) / migrations
SPECIFICATION Spec
CONSTANTS
    Stores <- StoresDef
    LocalStores <- LocalDef
    AlgOf <- AlgDef
    Contents <- ContentsDef
    Dig <- DigDef
    Paths <- PathsDef
    OnePath <- OneDef
    MaxSteps = 6
INVARIANT Inv_Addressed
INVARIANT Inv_UniqueNames
INVARIANT Inv_Protected
CHECK_DEADLOCK FALSE
