------------------------------ MODULE StorageMap ------------------------------
(***************************************************************************)
(* Storage mappings, collect, push and fetch (index/index.py:               *)
(* StorageMapping.__getitem__; index/collect.py: collect,                   *)
(* _collect_from_index; index/push.py: push; index/fetch.py: fetch).         *)
(* Property C18.                                                            *)
(*                                                                         *)
(* smap[p] = [cache, remote] : the slots of storage prefix p ("-" = unset);  *)
(* order = the prefixes in the order they were inserted (collect walks the   *)
(* map in that order).  Entries are keys of the index; Covers[p] = the       *)
(* entries at or below prefix p; ObjOf[k] = the object an entry points at;   *)
(* Listed[o] = the file objects a directory object lists.                    *)
(***************************************************************************)
EXTENDS Naturals, FiniteSets, Sequences, SequencesExt, TLC

CONSTANTS PrefixSet, Len_, PrefOf, Entries, Covers, ObjOf, Objects, Listed, Remotes, Caches, KnownDev, Configs, MaxFaults
None == "-"

VARIABLES smap, order, remote, cache, last, pc, dev, act
vars == <<smap, order, remote, cache, last, pc, dev, act>>

(************************** resolution (longest prefix, per role) ***********)
Covering(k) == {p \in DOMAIN smap : k \in Covers[p]}
Best(k, role) ==
    LET cand == {p \in Covering(k) : smap[p][role] # None}
    IN IF cand = {} THEN None ELSE smap[CHOOSE p \in cand : \A q \in cand : Len_[q] <= Len_[p]][role]
Resolve(k) == [cache |-> Best(k, "cache"), remote |-> Best(k, "remote")]

(************************** collect (as coded) *******************************)
\* collect walks storage_map.items(): every stored prefix with its slots RESOLVED (longest prefix per role, so a
\* prefix that sets only a cache still names the remote of a shorter prefix).  One group per remote, fed by every
\* prefix that (effectively) names it; the group's cache is the effective cache of the FIRST such prefix in
\* insertion order.
Eff(p, role) ==
    LET cand == {q \in DOMAIN smap \cap PrefOf[p] : smap[q][role] # None}
    IN IF cand = {} THEN None ELSE smap[CHOOSE q \in cand : \A x \in cand : Len_[x] <= Len_[q]][role]
Groups == {Eff(p, "remote") : p \in DOMAIN smap} \ {None}
FirstOf(r) == order[CHOOSE i \in DOMAIN order : Eff(order[i], "remote") = r /\ \A j \in DOMAIN order : (Eff(order[j], "remote") = r) => i <= j]
GroupCache(r) == Eff(FirstOf(r), "cache")
GroupEntries(r) == UNION {Covers[p] : p \in {q \in DOMAIN smap : Eff(q, "remote") = r}}
GroupObjects(r) == {ObjOf[k] : k \in GroupEntries(r)}

(************************** push / fetch *************************************)
Closure(S) == S \cup UNION {Listed[o] : o \in S \cap DOMAIN Listed}
\* one transfer cache -> remote of the group's objects, uploads in F fail; a directory object is withheld when a
\* file it lists failed (C04)
PushGroup(r, F, R, C) ==
    LET src == GroupCache(r)
        want == GroupObjects(r)
        new == {o \in want : o \in C[src] /\ o \notin R[r]}
        ffail == {o \in new : o \in F /\ o \notin DOMAIN Listed}
        dfail == {d \in new \cap DOMAIN Listed : d \in F \/ Listed[d] \cap ffail # {}}
        failed == ffail \cup dfail
    IN [delivered |-> new \ failed, failed |-> failed, new |-> new]
Push(F) ==
    /\ pc \in {"push", "retry"}
    /\ LET res == [r \in Groups |-> PushGroup(r, F, remote, cache)]
       IN /\ remote' = [r \in Remotes |-> IF r \in Groups THEN remote[r] \cup res[r].delivered ELSE remote[r]]
          /\ last' = [op |-> "push", pushed |-> LET S == {<<r, o>> : r \in Groups, o \in Objects} IN Cardinality({x \in S : x[2] \in res[x[1]].delivered}),
                      failed |-> LET S == {<<r, o>> : r \in Groups, o \in Objects} IN Cardinality({x \in S : x[2] \in res[x[1]].failed}),
                      moved |-> LET S == {<<r, o>> : r \in Groups, o \in Objects} IN Cardinality({x \in S : x[2] \in res[x[1]].new})]
    /\ pc' = IF pc = "push" THEN "retry" ELSE "fetch"
    /\ act' = [op |-> "Push", F |-> F]
    /\ UNCHANGED <<smap, order, cache, dev>>
\* fetch into empty caches: every group's objects go from its remote into the group's cache.
\* F11 (open): the group's cache is not necessarily the cache the mapping designates for each entry.
Fetch ==
    /\ pc = "fetch"
    /\ LET empty == [c \in Caches |-> {}]
           got(c) == UNION {GroupObjects(r) \cap remote[r] : r \in {g \in Groups : GroupCache(g) = c}}
       IN cache' = [c \in Caches |-> got(c)]
    /\ dev' = IF "F11" \in KnownDev /\ \E k \in Entries : Best(k, "remote") # None /\ Best(k, "cache") # GroupCache(Best(k, "remote"))
              THEN dev \cup {"F11"} ELSE dev
    /\ last' = [op |-> "fetch"]
    /\ pc' = "done" /\ act' = [op |-> "Fetch"]
    /\ UNCHANGED <<smap, order, remote>>

Init == /\ \E cf \in Configs : smap = cf.smap /\ order = cf.order
        /\ remote = [r \in Remotes |-> {}]
        /\ cache = [c \in Caches |-> Objects]      \* every cache starts with all the data
        /\ last = [op |-> "none"] /\ pc = "push" /\ dev = {} /\ act = [op |-> "Init"]
Next == (\E F \in {G \in SUBSET Objects : Cardinality(G) <= MaxFaults} : pc = "push" /\ Push(F))
        \/ (pc = "retry" /\ Push({})) \/ Fetch
Spec == Init /\ [][Next]_vars

(******************************* C18 predicates *****************************)
HasRemote(k) == Best(k, "remote") # None
\* every object reachable from the index is in the remote the mapping designates for its entry
C18_PushComplete(R) == \A k \in Entries : HasRemote(k) => Closure({ObjOf[k]}) \subseteq R[Best(k, "remote")]
C18_CountsAddUp(L) == L.pushed + L.failed = L.moved
\* after fetching into empty caches every entry's object is in the cache designated for it, and nothing else arrived
C18_FetchExact(C) ==
    /\ \A k \in Entries : (HasRemote(k) /\ Best(k, "cache") # None) => ObjOf[k] \in C[Best(k, "cache")]
    /\ UNION {C[c] : c \in Caches} \subseteq Closure({ObjOf[k] : k \in {e \in Entries : HasRemote(e)}})
\* the designations are honoured only if the cache set-up can work at all: sources must hold the objects
Pushable == \A r \in Groups : GroupCache(r) # None
Inv_Counts == last.op = "push" => C18_CountsAddUp(last)
Inv_RetryCompletes == (pc \in {"fetch", "done"} /\ Pushable) => C18_PushComplete(remote)
Inv_FetchExact == (pc = "done" /\ Pushable /\ dev = {}) => C18_FetchExact(cache)
=============================================================================
