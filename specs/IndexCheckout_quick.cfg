\* every (workspace tree, target tree) pair over p, p/q, p/q/r, z (96 trees each), every availability set, delete on/off
SPECIFICATION Spec
CONSTANTS
    Paths <- PathsDef
    Parent <- ParentDef
    Depth <- DepthDef
    Contents = {"c1", "c2"}
    Root = ""
    KnownDev = {}
INVARIANT Inv_Converges
INVARIANT Inv_Settled
INVARIANT Inv_Reported
