------------------------------ MODULE LazyIndex ------------------------------
(***************************************************************************)
(* Lazy directory loading, filtered views and the file-system adaptor       *)
(* (index/index.py: DataIndex.__getitem__, iteritems, ls, info, _load,       *)
(* _ensure_loaded, _load_from_object_storage; index/view.py; fs.py).         *)
(* Property C17.                                                            *)
(*                                                                         *)
(* T is the content of the index with every directory listed explicitly.    *)
(* The lazy index holds each directory of LazyDirs as one unloaded entry;    *)
(* `loaded` is the set of those that have been expanded so far.  Every       *)
(* operation returns a function of T alone - whatever `loaded` is - and may  *)
(* grow `loaded`; nothing ever shrinks it and loading twice changes nothing. *)
(***************************************************************************)
EXTENDS Naturals, FiniteSets, Sequences, TLC

CONSTANTS Keys, Parent, Root, IsDirKey, LazyDirs, Filters, FilterKeys, MaxSteps, Changed, ChangedLazy
\* Changed = the keys in which the changed copy differs (hash-wise); ChangedLazy = the lazy directories above them
\* Keys = every key of the explicit index (files, lazy directories, the directories inside them)
\* FilterKeys[f] = the keys filter f accepts (prefix-closed: accepts the ancestors of what it accepts)

VARIABLES loaded, last, act, steps
vars == <<loaded, last, act, steps>>

RECURSIVE Under(_, _)
Under(k, a) == IF k = Root THEN FALSE ELSE (Parent[k] = a \/ Under(Parent[k], a))
UnderEq(k, a) == k = a \/ Under(k, a)
Children(k) == {c \in Keys : Parent[c] = k}
\* the lazy directory a key lives in (strictly below), if any
LazyAbove(k) == {d \in LazyDirs : Under(k, d)}

(************************ reference results (functions of T) ****************)
RefGet(k) == IF k \in Keys THEN [found |-> TRUE, isdir |-> IsDirKey[k]] ELSE [found |-> FALSE, isdir |-> FALSE]
RefIter(prefix) == IF prefix = Root THEN Keys ELSE {k \in Keys : UnderEq(k, prefix)}
\* shallow iteration stops at the first key that carries an entry on every path: the prefix itself, or - from the root,
\* which carries none - the top-level keys
RefIterShallow(prefix) == IF prefix = Root THEN Children(Root) ELSE {prefix}
RefLs(k) == Children(k)
RefView(f) == FilterKeys[f]
RefViewLs(f, k) == Children(k) \cap FilterKeys[f]

(************************ which directories an operation expands ***********)
\* __getitem__ on a key that is not stored expands the lazy directory above it; ls/info go through it
LoadsGet(k) == LazyAbove(k)
LoadsLs(k) == LazyAbove(k) \cup (IF k \in LazyDirs THEN {k} ELSE {})
\* iteritems expands the directory holding the prefix and every lazy directory it yields
LoadsIter(prefix) == {d \in LazyDirs : prefix = Root \/ UnderEq(d, prefix) \/ Under(prefix, d) \/ prefix = d}
\* ... shallow: the directory holding the prefix and the lazy directories it yields, nothing below them
LoadsIterShallow(prefix) == {d \in LazyDirs : Under(prefix, d)} \cup (RefIterShallow(prefix) \cap LazyDirs)
\* a view expands the lazy directories its filter accepts (and, through them, nothing else)
LoadsView(f) == LazyDirs \cap FilterKeys[f]

Tick == steps' = steps + 1 /\ steps < MaxSteps
Do(name, args, res, lds) ==
    /\ Tick
    /\ loaded' = loaded \cup lds
    /\ last' = res
    /\ act' = [op |-> name, args |-> args]

Get(k)        == Do("Get", <<k>>, [kind |-> "get", r |-> RefGet(k)], IF k \in Keys THEN LoadsGet(k) ELSE {d \in LazyDirs : Under(k, d)})
Info(k)       == Do("Info", <<k>>, [kind |-> "get", r |-> RefGet(k)], LoadsGet(k))
Iter(p, sh)   == Do("Iter", <<p, sh>>, [kind |-> "keys", r |-> IF sh THEN RefIterShallow(p) ELSE RefIter(p)],
                    IF sh THEN LoadsIterShallow(p) ELSE LoadsIter(p))
Ls(k)         == Do("Ls", <<k>>, [kind |-> "keys", r |-> RefLs(k)], LoadsLs(k))
ViewIter(f)   == Do("ViewIter", <<f>>, [kind |-> "keys", r |-> RefView(f)], LoadsView(f))
ViewLs(f, k)  == Do("ViewLs", <<f, k>>, [kind |-> "keys", r |-> RefViewLs(f, k)], LoadsLs(k))
FsLs(k)       == Do("FsLs", <<k>>, [kind |-> "keys", r |-> RefLs(k)], LoadsLs(k))
FsInfo(k)     == Do("FsInfo", <<k>>, [kind |-> "get", r |-> RefGet(k)], LoadsGet(k))
FsCat(k)      == Do("FsCat", <<k>>, [kind |-> "bytes", r |-> k], LoadsGet(k))
FsFind(k)     == Do("FsFind", <<k>>, [kind |-> "keys", r |-> {x \in RefIter(k) : ~IsDirKey[x]}], LoadsIter(k))
HashDiff      == Do("HashDiff", <<>>, [kind |-> "keys", r |-> Keys], LazyDirs)
\* the hash-level diff against a copy of T that differs below one lazy directory only, unchanged entries not asked for:
\* exactly the keys that differ (Changed) are reported, and the lazy directories whose hash differs are expanded
HashDiffChanged == Do("HashDiffChanged", <<>>, [kind |-> "keys", r |-> Changed], ChangedLazy)

Next ==
    \/ \E k \in Keys : Get(k) \/ Info(k) \/ FsInfo(k)
    \/ \E k \in {x \in Keys : IsDirKey[x]} \cup {Root} : Ls(k) \/ FsLs(k) \/ FsFind(k) \/ \E f \in Filters : ViewLs(f, k)
    \/ \E k \in {x \in Keys : ~IsDirKey[x]} : FsCat(k)
    \/ \E p \in {x \in Keys : IsDirKey[x]} \cup {Root}, sh \in BOOLEAN : Iter(p, sh)
    \/ \E f \in Filters : ViewIter(f)
    \/ HashDiff \/ HashDiffChanged

Init == loaded = {} /\ last = [kind |-> "none"] /\ act = [op |-> "Init"] /\ steps = 0
Spec == Init /\ [][Next]_vars

(******************************* C17 predicates *****************************)
\* lz / ex = what the lazy and the explicit index answered to the same call
C17_Transparent(lz, ex) == lz = ex
\* a view exposes precisely the keys its filter accepts
C17_ViewExact(f, keys) == keys = FilterKeys[f]
\* expansion only grows and is idempotent: asking again gives the same answer
C17_Idempotent(first, again) == first = again
Inv_Monotone == [][loaded \subseteq loaded']_vars
Inv_LoadedLazy == loaded \subseteq LazyDirs
=============================================================================
