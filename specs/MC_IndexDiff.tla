---------------------------- MODULE MC_IndexDiff ----------------------------
EXTENDS IndexDiff

KeysQ == {"a", "a/x"}
ParentQ == [k \in KeysQ |-> IF k = "a/x" THEN "a" ELSE ""]
KeysM == {"a", "a/x", "a/y"}
ParentM == [k \in KeysM |-> IF k = "a" THEN "" ELSE "a"]
KeysG == {"a", "a/x", "a/y", "b"}
ParentG == [k \in KeysG |-> IF k \in {"a", "b"} THEN "" ELSE "a"]
KeysT == {"a", "a/x", "a/y", "a/x/p", "b"}
ParentT == [k \in KeysT |-> CASE k = "a/x" -> "a" [] k = "a/y" -> "a" [] k = "a/x/p" -> "a/x" [] OTHER -> ""]

\* shapes: t = "-" no entry; "d0" directory without hash; "dh" directory with (computed) hash; "f" file
Sh(t, m, h) == [t |-> t, m |-> m, h |-> h]
Shapes == {Sh("-", "", ""), Sh("d0", "", ""), Sh("dh", "", "")}
            \cup {Sh("f", m, h) : m \in FileMetas \cup {"none"}, h \in FileHashes \cup {"none"}}
OfShape(sh) ==
    [k \in Keys |->
        LET v == sh[k] IN
        IF v.t = "-" THEN NoEntry
        ELSE IF v.t \in {"d0", "dh"} THEN [m |-> "d", h |-> NoH]     \* "dh": hash filled in below
        ELSE [m |-> v.m, h |-> IF v.h = "none" THEN NoH ELSE FileH(v.h)]]
Build(sh) ==
    LET base == OfShape(sh)
    IN [k \in Keys |-> IF sh[k].t = "dh" THEN [m |-> "d", h |-> DirH(Sig(base, k))] ELSE base[k]]
AllIndexes == {idx \in {Build(sh) : sh \in [Keys -> Shapes]} : WellFormed(idx)}
EmptyIdx == [k \in Keys |-> NoEntry]
OptSets == {[unchanged |-> u, hash_only |-> (m = "hash"), meta_only |-> (m = "meta"), shallow |-> s, key |-> k] :
              u \in BOOLEAN, m \in {"entry", "hash", "meta"}, s \in BOOLEAN, k \in {"none", "mode", "cks"}}

Init == /\ old \in AllIndexes /\ new \in AllIndexes /\ opts \in OptSets
        /\ queue = InitQueue(old, new) /\ out = {} /\ pc = "bfs"
Spec == Init /\ [][Next]_vars
=============================================================================
