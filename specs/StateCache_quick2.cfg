\* two paths (batch queries), three contents (two of the same size), every history of <= 5 mutations / queries / injected rows / carry-overs
SPECIFICATION Spec
CONSTANTS
    Paths = {"p", "q"}
    StorePaths = {}
    LinkPaths = {}
    Contents = {"c1", "c2", "c3"}
    Size <- SizeDef
    Algs = {"md5"}
    MaxSteps = 5
INVARIANT Inv_NeverStale
INVARIANT Inv_RowsHonest
