---------------------------- MODULE TreeMerge ----------------------------
(***************************************************************************)
(* Three-way merge of directory listings (dvc_data/hashfile/tree.py:        *)
(* _diff, _merge, merge).  Property C19.                                    *)
(*                                                                         *)
(* A listing is a total function Keys -> Vals \cup {Absent}.  The module    *)
(* has two layers:                                                          *)
(*   - ThreeWay / Conflict : the reference three-way rule the property      *)
(*     states ("each path takes the side that changed it, or the common     *)
(*     value when both agree");                                             *)
(*   - CodeMerge : the algorithm as the code runs it - dictdiffer.diff of   *)
(*     each side against the ancestor, the policy filter, the early         *)
(*     returns, patching the ancestor in both orders and comparing.         *)
(* TLC checks, for every (ancestor, ours, theirs, policy), that CodeMerge   *)
(* satisfies the C19 predicates with respect to the reference rule; the     *)
(* trace specification then checks every observed call of the real _merge   *)
(* and merge against both layers.                                           *)
(***************************************************************************)
EXTENDS Naturals, FiniteSets, TLC

CONSTANTS Keys, Vals, KnownDev

Absent == "-"
Listing == [Keys -> Vals \cup {Absent}]
OpTypes == {"add", "remove", "change"}
Policies == SUBSET OpTypes
DefaultPolicy == {"add"}
\* `if not allowed: allowed = ["add"]` - an empty policy means the default one
Eff(pol) == IF pol = {} THEN DefaultPolicy ELSE pol

(************************* reference three-way rule ************************)
Changed(x, y, k) == x[k] # y[k]
Conflict(a, o, t) ==
    \E k \in Keys : Changed(a, o, k) /\ Changed(a, t, k) /\ o[k] # t[k]
ThreeWay(a, o, t) ==
    [k \in Keys |-> IF Changed(a, o, k) THEN o[k] ELSE t[k]]
BothSidesChanged(a, o, t) == (\E k \in Keys : Changed(a, o, k)) /\ (\E k \in Keys : Changed(a, t, k))
OnlyAdds(a, x) == \A k \in Keys : Changed(a, x, k) => a[k] = Absent

(***************************** the code's algorithm ************************)
\* dictdiffer.diff(x, y) on flat dicts, one op per differing key
OpOf(x, y, k) ==
    IF x[k] = y[k] THEN <<"none">>
    ELSE IF x[k] = Absent THEN <<"add", y[k]>>
    ELSE IF y[k] = Absent THEN <<"remove">>
    ELSE <<"change", y[k]>>
DiffTypes(x, y) == {OpOf(x, y, k)[1] : k \in Keys} \ {"none"}

\* dictdiffer.patch, one key, one op; "KeyError" is sticky
ApplyOp(cur, op) ==
    IF cur = "KeyError" THEN cur
    ELSE CASE op[1] = "none"   -> cur
           [] op[1] = "add"    -> op[2]
           [] op[1] = "change" -> op[2]
           [] op[1] = "remove" -> IF cur = Absent THEN "KeyError" ELSE Absent

\* patch(first_diff + second_diff, ancestor)
Patch(a, x, y) == [k \in Keys |-> ApplyOp(ApplyOp(a[k], OpOf(a, x, k)), OpOf(a, y, k))]
HasKeyError(l) == \E k \in Keys : l[k] = "KeyError"

Merged(m) == [kind |-> "merged", m |-> m]
MergeErr  == [kind |-> "MergeError"]
Exc(e)    == [kind |-> "exc", type |-> e]

\* F8 (known deviation while open): when the two patch orders disagree the
\* code builds the error message with patch(diff(p1, p2), {}); a 'remove' op in
\* that diff (ours removed a key that theirs changed) raises KeyError instead
\* of MergeError.
RemoveInDisagreement(p1, p2) == \E k \in Keys : p1[k] # Absent /\ p2[k] = Absent

CodeMerge(a, o, t, pol) ==
    LET ourT == DiffTypes(a, o)
        theirT == DiffTypes(a, t)
        p1 == Patch(a, o, t)
        p2 == Patch(a, t, o)
        eff == Eff(pol)
    IN  IF ~(ourT \subseteq eff) THEN [out |-> MergeErr, dev |-> {}]
        ELSE IF ourT = {} THEN [out |-> Merged(t), dev |-> {}]
        ELSE IF ~(theirT \subseteq eff) THEN [out |-> MergeErr, dev |-> {}]
        ELSE IF theirT = {} THEN [out |-> Merged(o), dev |-> {}]
        ELSE IF HasKeyError(p1) \/ HasKeyError(p2) THEN [out |-> MergeErr, dev |-> {}]
        ELSE IF p1 = p2 THEN [out |-> Merged(p1), dev |-> {}]
        ELSE IF "F8" \in KnownDev /\ RemoveInDisagreement(p1, p2)
             THEN [out |-> Exc("KeyError"), dev |-> {"F8"}]
        ELSE [out |-> MergeErr, dev |-> {}]

(************************** C19 predicates on an outcome *******************)
\* evaluated on any outcome `r` (modelled or observed) of merging (a, o, t) under pol
C19_ErrorKind(r) == r.kind \in {"merged", "MergeError"}
C19_Exact(a, o, t, r) == r.kind = "merged" => (~Conflict(a, o, t) /\ r.m = ThreeWay(a, o, t))
C19_Default(a, o, t, pol, r) ==
    (Eff(pol) = DefaultPolicy /\ r.kind = "merged" /\ BothSidesChanged(a, o, t))
        => (OnlyAdds(a, o) /\ OnlyAdds(a, t))
C19_Symmetric(r, rswap) == (r.kind = "merged" /\ rswap.kind = "merged") => r.m = rswap.m

(******************************* state machine *****************************)
VARIABLES a, o, t, policy, pc, out, dev
vars == <<a, o, t, policy, pc, out, dev>>

Init == /\ a \in Listing /\ o \in Listing /\ t \in Listing
        /\ policy \in Policies
        /\ pc = "call" /\ out = [kind |-> "none"] /\ dev = {}

Call == /\ pc = "call"
        /\ LET r == CodeMerge(a, o, t, policy) IN out' = r.out /\ dev' = r.dev
        /\ pc' = "done"
        /\ UNCHANGED <<a, o, t, policy>>

Next == Call
Spec == Init /\ [][Next]_vars

Inv_ErrorKind == (pc = "done" /\ dev = {}) => C19_ErrorKind(out)
Inv_Exact     == pc = "done" => C19_Exact(a, o, t, out)
Inv_Default   == pc = "done" => C19_Default(a, o, t, policy, out)
Inv_Symmetric == pc = "done" => C19_Symmetric(out, CodeMerge(a, t, o, policy).out)
\* the reference rule itself never drops / resurrects / overrides
Inv_RuleJustified ==
    ~Conflict(a, o, t) => \A k \in Keys :
        LET m == ThreeWay(a, o, t)[k] IN
           /\ m \in {a[k], o[k], t[k]}
           /\ (o[k] = t[k] => m = o[k])
           /\ (~Changed(a, o, k) /\ ~Changed(a, t, k) => m = a[k])
Inv_RuleSymmetric == ~Conflict(a, o, t) => ThreeWay(a, o, t) = ThreeWay(a, t, o)
=============================================================================
