--------------------------- MODULE SerializeTables ---------------------------
(***************************************************************************)
(* Dictionary forms of Meta, HashInfo and DataIndexEntry                    *)
(* (hashfile/meta.py, hashfile/hash_info.py, index/index.py).  Property C20, *)
(* clause "converting ... to dictionaries and back is lossless on the       *)
(* fields that are serialised".                                             *)
(*                                                                         *)
(* A Meta is a record of field values; "None" stands for Python's None.     *)
(* Dicts are sets of <<field, value>> pairs.  MetaToDict / MetaFromDict are *)
(* the reference conversions; TLC checks the round-trip laws on them for     *)
(* every shape, and the trace spec compares the real conversions with them.  *)
(***************************************************************************)
EXTENDS Naturals, FiniteSets, TLC

None == "None"
\* serialised fields of Meta and the values the exhaustive run gives them
BoolFields == {"isdir", "isexec"}
IntFields  == {"size", "nfiles"}
StrFields  == {"version_id", "etag", "checksum", "md5", "remote"}
Unserialised == {"inode", "mtime"}
MetaFields == BoolFields \cup IntFields \cup StrFields \cup Unserialised

\* which fields of m the dictionary form carries: True booleans, integers that are not None
\* (zero included), non-empty strings
Carried(m) == {f \in BoolFields : m[f] = "True"}
                \cup {f \in IntFields : m[f] # None}
                \cup {f \in StrFields : m[f] \notin {None, ""}}
MetaToDict(m) == {<<f, m[f]>> : f \in Carried(m)}
Default(f) == IF f \in BoolFields THEN "False" ELSE None
MetaFromDict(d) == [f \in MetaFields |-> IF \E p \in d : p[1] = f THEN (CHOOSE p \in d : p[1] = f)[2] ELSE Default(f)]

\* HashInfo: <<name, value>>; carried only when both are set and non-empty
HashToDict(h) == IF h.name \in {None, ""} \/ h.value \in {None, ""} THEN {} ELSE {<<h.name, h.value>>}
HashFromDict(d) == IF d = {} THEN [name |-> None, value |-> None]
                   ELSE LET p == CHOOSE p \in d : TRUE IN [name |-> p[1], value |-> p[2]]

\* DataIndexEntry: meta / hash dictionaries when non-empty, loaded always
EntryToDict(e) == [meta |-> IF e.meta = None THEN {} ELSE MetaToDict(e.meta),
                   hash |-> IF e.hash = None THEN {} ELSE HashToDict(e.hash),
                   loaded |-> e.loaded]

(******************************* C20 predicates *****************************)
\* d = the dictionary produced for m, back = the Meta rebuilt from d (both may be observed)
C20_MetaCarriesAll(m, d) == d = MetaToDict(m)
C20_MetaLossless(m, back) == \A f \in Carried(m) : back[f] = m[f]
C20_MetaIdempotent(d, d2) == d = d2
\* a listing entry written with metadata and parsed back with its hash name: every carried field but the one that
\* holds the hash itself (the listing stores the hash under "md5", and parsing puts it back there)
C20_ListingLossless(m, back) == \A f \in Carried(m) \ {"md5"} : back[f] = m[f]
C20_HashLossless(h, d, back) ==
    /\ d = HashToDict(h)
    /\ d # {} => (back.name = h.name /\ back.value = h.value)

(************************ exhaustive check of the reference *****************)
CONSTANTS BoolVals, IntVals, StrVals, NameVals, ValueVals
VARIABLES m, h
vars == <<m, h>>
MetaOf(b, i, s) == [f \in MetaFields |-> IF f \in BoolFields THEN b[f] ELSE IF f \in StrFields THEN s[f] ELSE i[f]]
AllMetas == {MetaOf(b, i, s) : b \in [BoolFields -> BoolVals], i \in [IntFields \cup Unserialised -> IntVals],
                              s \in [StrFields -> StrVals]}
AllHashes == [name : NameVals, value : ValueVals]
Init == \/ (m \in AllMetas /\ h = [name |-> None, value |-> None])
        \/ (h \in AllHashes /\ m = MetaOf([f \in BoolFields |-> "False"], [f \in IntFields \cup Unserialised |-> None],
                                           [f \in StrFields |-> None]))
Next == UNCHANGED vars
Spec == Init /\ [][Next]_vars
Inv_Meta == /\ C20_MetaLossless(m, MetaFromDict(MetaToDict(m)))
            /\ C20_MetaIdempotent(MetaToDict(m), MetaToDict(MetaFromDict(MetaToDict(m))))
Inv_Hash == C20_HashLossless(h, HashToDict(h), HashFromDict(HashToDict(h)))
=============================================================================
