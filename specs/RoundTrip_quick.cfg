SPECIFICATION Spec
CONSTANTS
    Paths <- PathsDef
    Contents <- ContentsDef
    Size <- SizeDef
    Routes = {"object", "index"}
INVARIANT Inv_C02
