SPECIFICATION Spec
CONSTANTS
    Paths <- PathsDef
    Contents <- ContentsDef
    Size <- SizeDef
    Routes = {"object", "index", "lazy"}
    Spellings = {"plain", "slash", "rel"}
INVARIANT Inv_C02
