SPECIFICATION Spec
CONSTANTS
    BoolVals = {"True", "False"}
    IntVals = {"None", "0", "7"}
    StrVals = {"None", "", "x"}
    NameVals = {"None", "md5", "md5-dos2unix", "sha256", ""}
    ValueVals = {"None", "", "h", "h.dir"}
INVARIANT Inv_Meta
INVARIANT Inv_Hash
