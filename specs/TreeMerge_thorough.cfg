\* exhaustive: every (ancestor, ours, theirs) over 3 keys x 3 values, every policy
SPECIFICATION Spec
CONSTANTS
    Keys = {"k1", "k2", "k3"}
    Vals = {"v1", "v2", "v3"}
    KnownDev = {}
INVARIANT Inv_ErrorKind
INVARIANT Inv_Exact
INVARIANT Inv_Default
INVARIANT Inv_Symmetric
INVARIANT Inv_RuleJustified
INVARIANT Inv_RuleSymmetric
