\* every order of <= 4 operations (lookup, info, iteration, listing, views, fs adaptor, hash diff) on an index with two lazy directories
SPECIFICATION Spec
CONSTANTS
    Keys <- KeysDef
    Parent <- ParentDef
    Root = ""
    IsDirKey <- IsDirDef
    LazyDirs <- LazyDef
    Filters <- FiltersDef
    FilterKeys <- FilterKeysDef
    Changed <- ChangedDef
    ChangedLazy <- ChangedLazyDef
    MaxSteps = 4
INVARIANT Inv_LoadedLazy
PROPERTY Inv_Monotone
