------------------------------ MODULE StateCache ------------------------------
(***************************************************************************)
(* The hash-state cache (hashfile/state.py: State.save/get/save_many/       *)
(* get_many, _checksum; hashfile/cache.py: HashesCache; hashfile/hash.py:    *)
(* hash_file; hashfile/build.py: _get_hashes; index/update.py, index/save.py *)
(* md5).  Property C13.                                                      *)
(*                                                                         *)
(* file[p] : None or [ino, mt, c]   (size is a function of the content)     *)
(* row[p]  : None or [tok, h, alg, ver] - the cache row for path p          *)
(* carried[p] : None or [tok, h] - an entry of a previous index (hash + the  *)
(*           metadata it was recorded with), used by the metadata-based      *)
(*           update                                                          *)
(* A cache hit needs: equal token (inode, mtime, size), the requested        *)
(* algorithm, a format version not newer than the code's.                    *)
(*                                                                         *)
(* A13: a (inode, mtime, size) token is never re-used for other content at   *)
(* the same path (no scheme based on such a token can do without it): every  *)
(* mutation draws a token that the path never had.                           *)
(***************************************************************************)
EXTENDS Naturals, FiniteSets, TLC

CONSTANTS Paths, Contents, Size, Algs, MaxSteps, StorePaths, LinkPaths
\* StorePaths \subseteq Paths: the places of objects in an object store (not in the workspace directory)
\* LinkPaths \subseteq Paths: workspace paths that are symbolic links to files kept elsewhere
None == [none |-> TRUE]
CodeVersion == 1

VARIABLES file, row, carried, used, clock, last, act, steps
vars == <<file, row, carried, used, clock, last, act, steps>>

Tok(f) == <<f.ino, f.mt, Size[f.c]>>
Exists(p) == file[p] # None
Tick == steps' = steps + 1 /\ steps < MaxSteps

\* any change of the file: new content and/or new inode and/or new mtime - but a fresh token
Mutate(p, c, newIno, newMt) ==
    /\ Tick /\ Exists(p)
    /\ LET f == [ino |-> IF newIno THEN clock ELSE file[p].ino,
                 mt  |-> IF newMt THEN clock ELSE file[p].mt,
                 c   |-> c]
       IN /\ Tok(f) \notin used[p]                     \* A13
          /\ file' = [file EXCEPT ![p] = f]
          /\ used' = [used EXCEPT ![p] = @ \cup {Tok(f)}]
    /\ clock' = clock + 1
    /\ act' = [op |-> "Mutate", p |-> p, c |-> c, ino |-> newIno, mt |-> newMt]
    /\ UNCHANGED <<row, carried, last>>

Delete(p) ==
    /\ Tick /\ Exists(p)
    /\ file' = [file EXCEPT ![p] = None]
    /\ act' = [op |-> "Delete", p |-> p]
    /\ UNCHANGED <<row, carried, used, clock, last>>

Create(p, c) ==
    /\ Tick /\ ~Exists(p) /\ p \notin StorePaths
    /\ LET f == [ino |-> clock, mt |-> clock, c |-> c]
       IN file' = [file EXCEPT ![p] = f] /\ used' = [used EXCEPT ![p] = @ \cup {Tok(f)}]
    /\ clock' = clock + 1
    /\ act' = [op |-> "Create", p |-> p, c |-> c]
    /\ UNCHANGED <<row, carried, last>>

\* State._get + the `hash_info.name == name` test of hash_file / _get_hashes
Hit(p, alg) ==
    /\ Exists(p) /\ row[p] # None
    /\ row[p].tok = Tok(file[p])
    /\ row[p].ver <= CodeVersion
    /\ row[p].alg = alg
Answer(p, alg) == IF Hit(p, alg) THEN row[p].h ELSE file[p].c
Saved(p, alg) == IF Hit(p, alg) THEN row[p] ELSE [tok |-> Tok(file[p]), h |-> file[p].c, alg |-> alg, ver |-> CodeVersion]

\* hash_file(path, fs, alg, state) / _get_hashes(paths...) / build(): ask for the hashes of a set of existing files.
\* Staging a directory and hashing an index of it look at every file of the directory, whatever the caller wanted to know
Scope(P, api) == IF api \in {"build", "index_md5"} THEN {q \in Paths \ StorePaths : Exists(q)} ELSE P
Query(P, alg, api) ==
    /\ Tick /\ P # {} /\ \A p \in P : Exists(p)
    /\ last' = [op |-> "Query", ans |-> [p \in P |-> Answer(p, alg)]]
    /\ row' = [p \in Paths |-> IF p \in Scope(P, api) THEN Saved(p, alg) ELSE row[p]]
    /\ act' = [op |-> "Query", P |-> P, alg |-> alg, api |-> api]
    /\ UNCHANGED <<file, carried, used, clock>>

\* a query on one file that is really hashed (no hit) while a writer replaces the file.  The call takes the file's
\* stat (the caller's, or its own before it opens the file), reads the bytes, and records the hash against THAT stat:
\*   when = "before-read": the write lands after the stat and before the bytes are read
\*   when = "after-read" : the write lands after the last byte was read and before the row is saved
\* Either way the row carries the token from before the write, so it can never be a hit for the new file.
\* (F17, repaired: callers that passed no stat had the row recorded against a stat taken AFTER the read - the hash of
\* the old bytes under the token of the new file.)  The in-flight answer itself is the hash of what was read.
QueryRace(p, alg, api, c, newIno, newMt, when) ==
    /\ Tick /\ Exists(p) /\ ~Hit(p, alg)
    /\ LET t0 == Tok(file[p])
           f == [ino |-> IF newIno THEN clock ELSE file[p].ino, mt |-> IF newMt THEN clock ELSE file[p].mt, c |-> c]
           rd == IF when = "before-read" THEN c ELSE file[p].c
       IN /\ Tok(f) \notin used[p]                     \* A13
          /\ file' = [file EXCEPT ![p] = f]
          /\ used' = [used EXCEPT ![p] = @ \cup {Tok(f)}]
          /\ row' = [q \in Paths |-> IF q = p THEN [tok |-> t0, h |-> rd, alg |-> alg, ver |-> CodeVersion]
                                     ELSE IF q \in Scope({p}, api) THEN Saved(q, alg) ELSE row[q]]
          /\ last' = [op |-> "QueryRace", ans |-> [q \in {p} |-> rd]]
    /\ clock' = clock + 1
    /\ act' = [op |-> "QueryRace", p |-> p, alg |-> alg, api |-> api, c |-> c, ino |-> newIno, mt |-> newMt, when |-> when]
    /\ UNCHANGED carried

\* an object store of algorithm `salg` - sharing this state database - takes the content in as an object whose place is p:
\* the library itself records a row for the object, under the STORE's algorithm.  (A legacy md5-dos2unix cache next to
\* an md5 one, a sha256 store: a later lookup of the object under another algorithm - hash_file, migrate - is no hit.)
StoreCreate(p, c, salg) ==
    /\ Tick /\ ~Exists(p) /\ p \in StorePaths
    /\ LET f == [ino |-> clock, mt |-> clock, c |-> c]
       IN /\ file' = [file EXCEPT ![p] = f] /\ used' = [used EXCEPT ![p] = @ \cup {Tok(f)}]
          /\ row' = [row EXCEPT ![p] = [tok |-> Tok(f), h |-> c, alg |-> salg, ver |-> CodeVersion]]
    /\ clock' = clock + 1
    /\ act' = [op |-> "StoreCreate", p |-> p, c |-> c, salg |-> salg]
    /\ UNCHANGED <<carried, last>>

\* an index checkout with the state database attached (index/checkout.py apply(..., state=...)) is asked to create p with
\* content c where a file the old index does not list is already sitting.  With link type copy the file is replaced; with
\* a link type (hard / symbolic) the link attempt meets the existing file, which is left alone (dvc_objects skips
\* FileExistsError).  The checkout cannot tell the two apart, so it records no row for a path that existed before.
\* (F20, repaired: a row was written regardless - with a link type, the target's hash under the token of the user's file.)
ApplyOver(p, c, lt, newIno, newMt) ==
    /\ Tick /\ Exists(p) /\ p \notin StorePaths /\ p \notin LinkPaths    \* (a checkout replaces a link by a file: not modelled)
    /\ IF lt = "copy"
       THEN LET f == [ino |-> IF newIno THEN clock ELSE file[p].ino, mt |-> IF newMt THEN clock ELSE file[p].mt, c |-> c]
            IN /\ Tok(f) \notin used[p]
               /\ file' = [file EXCEPT ![p] = f] /\ used' = [used EXCEPT ![p] = @ \cup {Tok(f)}]
               /\ clock' = clock + 1
       ELSE /\ ~newIno /\ ~newMt
            /\ UNCHANGED <<file, used, clock>>
    /\ UNCHANGED row
    /\ act' = [op |-> "ApplyOver", p |-> p, c |-> c, lt |-> lt, ino |-> newIno, mt |-> newMt]
    /\ UNCHANGED <<carried, last>>

\* a row that the code under test must never return for algorithm md5 although its token is current:
\* recorded for another algorithm / by a newer format version / legacy unversioned (means md5-dos2unix)
Inject(p, kind) ==
    /\ Tick /\ Exists(p)
    /\ row' = [row EXCEPT ![p] = [tok |-> Tok(file[p]), h |-> "bogus",
                                   alg |-> IF kind = "otheralg" THEN "other" ELSE IF kind = "legacy" THEN "md5-dos2unix" ELSE "md5",
                                   ver |-> IF kind = "newer" THEN CodeVersion + 1 ELSE CodeVersion]]
    /\ act' = [op |-> "Inject", p |-> p, kind |-> kind]
    /\ UNCHANGED <<file, carried, used, clock, last>>

\* index built and hashed now; later `update(new, old)` carries a hash over when the metadata is unchanged
Snapshot ==
    /\ Tick
    /\ carried' = [p \in Paths |-> IF Exists(p) /\ p \notin StorePaths THEN [tok |-> Tok(file[p]), h |-> file[p].c] ELSE None]
    /\ act' = [op |-> "Snapshot"]
    /\ UNCHANGED <<file, row, used, clock, last>>
Carry ==
    /\ Tick
    /\ last' = [op |-> "Carry", ans |-> [p \in {q \in Paths : Exists(q) /\ carried[q] # None /\ carried[q].tok = Tok(file[q])} |-> carried[p].h]]
    /\ act' = [op |-> "Carry"]
    /\ UNCHANGED <<file, row, carried, used, clock>>

Next ==
    \/ \E p \in Paths, c \in Contents, i \in BOOLEAN, m \in BOOLEAN : Mutate(p, c, i, m)
    \/ \E p \in Paths : Delete(p)
    \/ \E p \in Paths, c \in Contents : Create(p, c)
    \/ \E p \in StorePaths, c \in Contents, salg \in {"md5", "md5-dos2unix", "sha256"} : StoreCreate(p, c, salg)
    \/ \E P \in SUBSET Paths, alg \in Algs : Query(P, alg, "any")
    \/ \E p \in Paths, alg \in Algs, c \in Contents, i \in BOOLEAN, m \in BOOLEAN, w \in {"before-read", "after-read"} :
          QueryRace(p, alg, "any", c, i, m, w)
    \/ \E p \in Paths, k \in {"otheralg", "newer", "legacy"} : Inject(p, k)
    \/ \E p \in Paths, c \in Contents, lt \in {"copy", "hard", "sym"} : ApplyOver(p, c, lt, lt = "copy", lt = "copy")
    \/ Snapshot \/ Carry

Init == /\ file = [p \in Paths |-> None] /\ row = [p \in Paths |-> None] /\ carried = [p \in Paths |-> None]
        /\ used = [p \in Paths |-> {}] /\ clock = 1 /\ last = [op |-> "none"] /\ act = [op |-> "Init"] /\ steps = 0
Spec == Init /\ [][Next]_vars

(******************************* C13 predicates *****************************)
\* ans = the hashes a query / a carry-over returned, F = the files at that instant
C13_NeverStale(F, ans) == \A p \in DOMAIN ans : ans[p] = F[p].c
Inv_NeverStale == (act.op \in {"Query", "Carry"}) => C13_NeverStale(file, last.ans)
\* what makes it true: a current-token row of the right algorithm and version always holds the current content
Inv_RowsHonest == \A p \in Paths, a \in Algs : (Hit(p, a) /\ row[p].h # "bogus") => row[p].h = file[p].c
=============================================================================
