------------------------------- MODULE Checkout -------------------------------
(***************************************************************************)
(* Object-level checkout (hashfile/checkout.py: checkout, _diff, _checkout, *)
(* _remove, _checkout_file, _relink, Link, _needs_relink; hashfile/diff.py). *)
(* Properties C05 (never destroys unrecoverable data), C10 (converges, is    *)
(* idempotent, honours link types, spares the cache), C02 (round trip).      *)
(*                                                                         *)
(* ws     : what is at the checkout path: [kind, files]                     *)
(*          kind "absent" | "file" (the file is files[Root]) | "dir"         *)
(*          files[k] = NoFile or [c |-> content, lt |-> "copy"|"hard"|"sym"] *)
(* cache  : cache[c] in {"ok", "bad", "none"} per file content; dirobjs =    *)
(*          the listings whose directory object is in the cache              *)
(* One checkout is unrolled the way the code runs it:                       *)
(*   Begin  - re-stage the path (dry run), diff against the target, check    *)
(*            every object involved against the cache (a corrupt unprotected *)
(*            object is dropped by that check)                               *)
(*   Remove - one fs.remove(): a deletion, or the removal that precedes      *)
(*            re-linking a modified file; guarded by _remove()               *)
(*   Create - one link/copy of a cache object into the workspace             *)
(*   End    - result: ok / PromptError(key) / CheckoutError(keys)            *)
(***************************************************************************)
EXTENDS Naturals, FiniteSets, TLC

CONSTANTS Keys, Contents, Root, LinkType, KnownDev, MaxCheckouts, InitWs, InitCache, Prompts, Twins
\* Twins = pairs of contents of the same size
\* LinkType = the configured cache type: "copy" | "hard" | "sym"
NoFile == [c |-> "-", lt |-> "-"]
F(c, lt) == [c |-> c, lt |-> lt]
AllKeys == Keys \cup {Root}

VARIABLES ws, cache, dirobjs, pc, args, todoDel, todoNew, needRm, pend, failed, res, touched, act, dev, n
vars == <<ws, cache, dirobjs, pc, args, todoDel, todoNew, needRm, pend, failed, res, touched, act, dev, n>>

(******************************** helpers **********************************)
FilesOf(w) == IF w.kind = "dir" THEN {k \in Keys : w.files[k] # NoFile} ELSE {}
ListingOf(w) == [k \in FilesOf(w) |-> w.files[k].c]
TargetKeys(t) == IF t.kind = "tree" THEN DOMAIN t.listing ELSE {}
\* (a dangling link names no content: nothing in the cache stands for it)
InCache(C, c) == c \in DOMAIN C /\ C[c] = "ok"
\* oid at a key on the old side (what a dry-run staging of the path finds) / on the target side
OldOid(w, k) == IF k = Root
                THEN (IF w.kind = "file" THEN <<"f", w.files[Root].c>> ELSE IF w.kind = "dir" THEN <<"d", ListingOf(w)>> ELSE <<"none">>)
                ELSE (IF k \in FilesOf(w) THEN <<"f", w.files[k].c>> ELSE <<"none">>)
NewOid(t, k) == IF k = Root
                THEN (IF t.kind = "file" THEN <<"f", t.c>> ELSE IF t.kind = "tree" THEN <<"d", t.listing>> ELSE <<"none">>)
                ELSE (IF k \in TargetKeys(t) THEN <<"f", t.listing[k]>> ELSE <<"none">>)
OidInCache(C, D, oid) == IF oid[1] = "f" THEN InCache(C, oid[2]) ELSE IF oid[1] = "d" THEN oid[2] \in D ELSE FALSE

\* cache.check() on every object the diff touches: a corrupt unprotected object is removed
Checked(C, w, t) ==
    LET cs == {w.files[k].c : k \in {x \in AllKeys : w.files[x] # NoFile}} \cup
              (IF t.kind = "file" THEN {t.c} ELSE IF t.kind = "tree" THEN {t.listing[k] : k \in DOMAIN t.listing} ELSE {})
    IN [c \in Contents |-> IF c \in cs /\ C[c] = "bad" THEN "none" ELSE C[c]]

\* does the file at k already have the configured link type (checkout._needs_relink)?
\* F9: an empty file is never a hard link (dvc_objects creates an independent empty file)
HasType(f) == f.lt = LinkType
Idle == pc = "idle"

(******************************** one checkout *****************************)
DiffOf(w, C1, D, t, relink) ==
    LET keys == {k \in AllKeys : OldOid(w, k) # <<"none">> \/ NewOid(t, k) # <<"none">>}
        del == {k \in keys : OldOid(w, k) # <<"none">> /\ NewOid(t, k) = <<"none">>}
        add == {k \in keys : OldOid(w, k) = <<"none">> /\ NewOid(t, k) # <<"none">>}
        mod == {k \in keys : OldOid(w, k) # <<"none">> /\ NewOid(t, k) # <<"none">> /\ OldOid(w, k) # NewOid(t, k)}
        unch == {k \in keys : OldOid(w, k) = NewOid(t, k) /\ NewOid(t, k)[1] = "f"}
        \* unchanged files whose object is missing from the cache are re-checked-out;
        \* with relink, unchanged files of the wrong link type as well
        \* (for a single-file target the diff carries no metadata of the file: it is always re-examined)
        redo == {k \in unch : ~OidInCache(C1, D, NewOid(t, k))}
                  \cup (IF relink THEN {k \in unch : ~HasType(w.files[k]) \/ k = Root} ELSE {})
        \* with relink a copy that is to stay a copy is only made writable again, not re-created
        unprotectOnly == IF relink /\ LinkType = "copy" THEN {k \in redo : w.files[k].lt = "copy" /\ OidInCache(C1, D, NewOid(t, k))} ELSE {}
    IN [del |-> del, add |-> add, mod |-> mod, redo |-> redo,
        new |-> {k \in add \cup mod \cup (redo \ unprotectOnly) : NewOid(t, k)[1] = "f"},
        any |-> del \cup add \cup mod \cup redo # {}]

\* a directory that holds a dangling symbolic link (its object left the cache) cannot be hashed: the checkout does not
\* know what is there and refuses with FileNotFoundError before touching anything (after the F15 repair; before it the
\* directory was taken to be absent and its files were overwritten as if new)
Unreadable(w) == w.kind = "dir" /\ \E k \in Keys : w.files[k] # NoFile /\ w.files[k].c = "dangling"
\* sp = how the caller wrote the path ("plain", or "slash": with a trailing separator - what tab completion gives for a
\* directory); no result may depend on it
Begin(t, force, relink, prompt, withState, sp) ==
    /\ Idle /\ n < MaxCheckouts
    /\ LET C1 == IF Unreadable(ws) THEN cache ELSE Checked(cache, ws, t)
           d == DiffOf(ws, C1, dirobjs, t, relink)
       IN /\ cache' = C1
          /\ todoDel' = IF Unreadable(ws) THEN {} ELSE d.del
          /\ todoNew' = IF Unreadable(ws) THEN {} ELSE d.new
          /\ needRm' = IF Unreadable(ws) THEN {} ELSE {k \in d.new : OldOid(ws, k) # <<"none">>}
          /\ failed' = IF Unreadable(ws) THEN {"!dangling"} ELSE {}
          /\ args' = [t |-> t, force |-> force, relink |-> relink, prompt |-> prompt, diff |-> d.any, state |-> withState, pcache |-> cache,
                      pre |-> ws, mkroot |-> (t.kind = "tree" /\ Root \in d.add \cup d.mod)]
    /\ pc' = "run" /\ pend' = "-" /\ res' = [kind |-> "running"] /\ touched' = {}
    /\ act' = [op |-> "Begin", t |-> t, force |-> force, relink |-> relink, prompt |-> prompt, state |-> withState, sp |-> sp]
    /\ n' = n + 1
    /\ UNCHANGED <<ws, dirobjs, dev>>

\* _remove(): without force an object that is not in the cache is only removed after an affirmative prompt
Guard(k) == args.force \/ OidInCache(cache, dirobjs, OldOid(args.pre, k)) \/ args.prompt = "accepts"
Exists(w, k) == IF k = Root THEN w.kind # "absent" ELSE k \in FilesOf(w)
Gone(w, k) == IF k = Root THEN [kind |-> "absent", files |-> [x \in AllKeys |-> NoFile]]
              ELSE [w EXCEPT !.files[k] = NoFile]

\* deletions; intended (and the code after the F2 repair): the path itself goes last, after every file
\* below it has passed its own guard.  F2 (while open): any order - the whole directory may be removed
\* on the strength of its directory object being cached.
\* Every action below is one observable step (an fs.remove, a link/copy, or the call returning): steps the
\* code takes silently (skipping to the next phase, a link that fails because the object is missing) are
\* folded into the guards of the observable ones.
Running == pc = "run"
RootLast(k) == (k = Root /\ "F2" \notin KnownDev) => todoDel = {Root}
RemoveDel(k) ==
    /\ Running /\ k \in todoDel /\ RootLast(k)
    /\ Exists(ws, k) /\ Guard(k)
    /\ ws' = Gone(ws, k)
    /\ touched' = touched \cup (IF k = Root THEN {x \in AllKeys : Exists(ws, x)} ELSE {k})
    /\ dev' = IF k = Root /\ todoDel # {Root} THEN dev \cup {"F2"} ELSE dev
    /\ todoDel' = IF k = Root THEN {} ELSE todoDel \ {k}
    /\ act' = [op |-> "Remove", k |-> k]
    /\ UNCHANGED <<cache, dirobjs, pc, args, todoNew, needRm, pend, failed, res, n>>
PromptDel(k) ==
    /\ Running /\ k \in todoDel /\ RootLast(k) /\ Exists(ws, k) /\ ~Guard(k)
    /\ res' = [kind |-> "PromptError", key |-> k] /\ pc' = "idle"
    /\ act' = [op |-> "End"]
    /\ UNCHANGED <<ws, cache, dirobjs, args, todoDel, todoNew, needRm, pend, failed, touched, dev, n>>

\* ---- second phase: added and modified entries, in any order
NewPhase == Running /\ todoDel = {} /\ "!dangling" \notin failed
\* a tree target over a path that is a file: makedirs() on the path fails (no kind change file -> directory)
KindClash == args.t.kind = "tree" /\ ws.kind = "file"
\* the file removed last awaits its re-creation unless its object is missing (the link fails silently,
\* the path is reported at the end)
PendClear == pend = "-" \/ ~OidInCache(cache, dirobjs, NewOid(args.t, pend))
Settle == IF pend # "-" /\ PendClear THEN failed \cup {pend} ELSE failed
\* the removal that precedes re-creating a modified file (_relink -> _remove)
RemoveNew(k) ==
    /\ NewPhase /\ ~KindClash /\ PendClear /\ k \in todoNew /\ k \in needRm /\ Exists(ws, k) /\ Guard(k)
    /\ ws' = Gone(ws, k) /\ pend' = k /\ needRm' = needRm \ {k}
    /\ failed' = Settle /\ todoNew' = todoNew \ (IF pend # "-" THEN {pend} ELSE {})
    /\ touched' = touched \cup {k}
    /\ act' = [op |-> "Remove", k |-> k]
    /\ UNCHANGED <<cache, dirobjs, pc, args, todoDel, res, dev, n>>
PromptNew(k) ==
    /\ NewPhase /\ ~KindClash /\ PendClear /\ k \in todoNew /\ k \in needRm /\ Exists(ws, k) /\ ~Guard(k)
    /\ res' = [kind |-> "PromptError", key |-> k] /\ pc' = "idle"
    /\ act' = [op |-> "End"]
    /\ UNCHANGED <<ws, cache, dirobjs, args, todoDel, todoNew, needRm, pend, failed, touched, dev, n>>
Crash ==
    /\ NewPhase /\ KindClash
    /\ \E ty \in {"FileExistsError", "NotADirectoryError"} : res' = [kind |-> "exc", type |-> ty]
    /\ pc' = "idle"
    /\ act' = [op |-> "End"]
    /\ UNCHANGED <<ws, cache, dirobjs, args, todoDel, todoNew, needRm, pend, failed, touched, dev, n>>
\* F9 (open): an empty file is materialised as an independent file whatever the link type
\* (dvc_objects' link() creates an empty file instead of a hard link, deliberately)
Made(c) == IF LinkType = "hard" /\ c = "c0" THEN "copy" ELSE LinkType
PutFile(w, k, f) == IF k = Root THEN [kind |-> "file", files |-> [x \in AllKeys |-> IF x = Root THEN f ELSE NoFile]]
                    ELSE [kind |-> "dir", files |-> [w.files EXCEPT ![k] = f]]
Create(k) ==
    /\ NewPhase /\ ~KindClash /\ k \in todoNew
    /\ pend = k \/ (PendClear /\ (k \notin needRm \/ ~Exists(ws, k)))
    /\ OidInCache(cache, dirobjs, NewOid(args.t, k))
    /\ ws' = PutFile(ws, k, F(NewOid(args.t, k)[2], Made(NewOid(args.t, k)[2])))
    /\ failed' = IF pend = k THEN failed ELSE Settle
    /\ todoNew' = todoNew \ ({k} \cup (IF pend # "-" THEN {pend} ELSE {}))
    /\ pend' = "-" /\ needRm' = needRm \ {k}
    /\ touched' = touched \cup {k}
    /\ dev' = IF LinkType = "hard" /\ NewOid(args.t, k)[2] = "c0" /\ "F9" \in KnownDev THEN dev \cup {"F9"} ELSE dev
    /\ act' = [op |-> "Create", k |-> k]
    /\ UNCHANGED <<cache, dirobjs, pc, args, todoDel, res, n>>
\* named behaviour: with symbolic links a missing cache object does not make the link fail - a dangling
\* link is created, and stat-ing it right afterwards ends the call with FileNotFoundError
Doomed == "!dangling" \in failed
CreateDangling(k) ==
    /\ NewPhase /\ ~KindClash /\ ~Doomed /\ LinkType = "sym" /\ k \in todoNew
    /\ pend = k \/ (PendClear /\ (k \notin needRm \/ ~Exists(ws, k)))
    /\ ~OidInCache(cache, dirobjs, NewOid(args.t, k))
    /\ ws' = PutFile(ws, k, F("dangling", "sym"))
    /\ failed' = failed \cup {"!dangling"} /\ todoNew' = todoNew \ {k} /\ pend' = "-" /\ needRm' = needRm \ {k}
    /\ touched' = touched \cup {k}
    /\ act' = [op |-> "Create", k |-> k]
    /\ UNCHANGED <<cache, dirobjs, pc, args, todoDel, res, dev, n>>
EndDoomed ==
    /\ Running /\ Doomed
    /\ res' = [kind |-> "exc", type |-> "FileNotFoundError"] /\ pc' = "idle"
    /\ act' = [op |-> "End"]
    /\ UNCHANGED <<ws, cache, dirobjs, args, todoDel, todoNew, needRm, pend, failed, touched, dev, n>>
\* the call returns: every entry still to be created has a missing object (and, if it was to replace a
\* file, that file is gone or was never there)
Stuck(k) == LinkType # "sym" /\ ~OidInCache(cache, dirobjs, NewOid(args.t, k)) /\ (k = pend \/ k \notin needRm \/ ~Exists(ws, k))
End ==
    /\ NewPhase /\ ~KindClash /\ \A k \in todoNew : Stuck(k)
    /\ LET fl == failed \cup todoNew \cup (IF args.t.kind = "none" THEN {Root} ELSE {})
           \* an empty target tree leaves an (empty) directory
           w2 == IF args.mkroot /\ ws.kind = "absent" THEN [kind |-> "dir", files |-> [x \in AllKeys |-> NoFile]] ELSE ws
       IN \* with a state database the link record of the path is saved after the changes: when nothing is
          \* left at the path, stat-ing it raises FileNotFoundError before the result is reported (named behaviour)
          \* (also when there was nothing to do but `relink` was asked for: the record is refreshed then as well)
          /\ res' = IF args.state /\ (args.diff \/ args.relink) /\ w2.kind = "absent" THEN [kind |-> "exc", type |-> "FileNotFoundError"]
                    ELSE IF fl # {} THEN [kind |-> "CheckoutError", keys |-> fl]
                    ELSE [kind |-> "ok", ret |-> IF ~args.diff THEN "none" ELSE IF args.relink THEN "false" ELSE "true"]
          /\ failed' = fl
          /\ ws' = w2
    /\ pc' = "idle" /\ todoNew' = {} /\ pend' = "-"
    /\ act' = [op |-> "End"]
    /\ UNCHANGED <<cache, dirobjs, args, todoDel, needRm, touched, dev, n>>

\* between two checkouts (of one process) an object leaves the cache - a gc that no longer counts it as used, a manual
\* clean-up.  Workspace files that were links to it lose it: a hard link becomes an independent copy, a symbolic
\* link dangles.  What a later checkout may delete is decided by the cache as it is then, not as it was.
Evict(c) ==
    /\ Idle /\ n >= 1 /\ n < MaxCheckouts /\ cache[c] = "ok"
    /\ cache' = [cache EXCEPT ![c] = "none"]
    /\ ws' = [ws EXCEPT !.files = [k \in AllKeys |->
                  \* (two workspace files that were hard links to the same object stay linked to each other)
                  IF @[k] # NoFile /\ @[k].c = c /\ @[k].lt = "hard"
                     /\ Cardinality({x \in AllKeys : @[x] # NoFile /\ @[x].c = c /\ @[x].lt = "hard"}) = 1 THEN F(c, "copy")
                  ELSE IF @[k] # NoFile /\ @[k].c = c /\ @[k].lt = "sym" THEN F("dangling", "sym")
                  ELSE @[k]]]
    /\ act' = [op |-> "Evict", c |-> c]
    /\ UNCHANGED <<dirobjs, pc, args, todoDel, todoNew, needRm, pend, failed, res, touched, dev, n>>

\* between two checkouts (of one process) a cache object is damaged: replaced by a file of other bytes, not protected.
\* (Explored for independent copies only: links into the cache would carry the damage into the workspace by themselves.)
Corrupt(c) ==
    /\ Idle /\ n >= 1 /\ n < MaxCheckouts /\ cache[c] = "ok" /\ LinkType = "copy"
    /\ cache' = [cache EXCEPT ![c] = "bad"]
    /\ act' = [op |-> "Corrupt", c |-> c]
    /\ UNCHANGED <<ws, dirobjs, pc, args, todoDel, todoNew, needRm, pend, failed, res, touched, dev, n>>

\* between two checkouts (of one process) a missing object arrives in the cache (it was fetched)
Arrive(c) ==
    /\ Idle /\ n >= 1 /\ n < MaxCheckouts /\ cache[c] = "none"
    /\ \A k \in AllKeys : ws.files[k] = NoFile \/ ws.files[k].c # "dangling"     \* (which object a dangling link named is not tracked)
    /\ cache' = [cache EXCEPT ![c] = "ok"]
    /\ act' = [op |-> "Arrive", c |-> c]
    /\ UNCHANGED <<ws, dirobjs, pc, args, todoDel, todoNew, needRm, pend, failed, res, touched, dev, n>>

\* between two checkouts (of one process) the user replaces a workspace file by another file - moved into place, so a new
\* inode - that has the size and carries the time stamp of the old one: whatever a state database remembers about the
\* path (hash, link record) is about a file that is no longer there.  For the model this is just another workspace.
Replace(k, c) ==
    /\ Idle /\ n >= 1 /\ n < MaxCheckouts
    /\ k \in AllKeys /\ ws.files[k] # NoFile /\ <<ws.files[k].c, c>> \in Twins
    /\ ws' = [ws EXCEPT !.files[k] = F(c, "copy")]
    /\ act' = [op |-> "Replace", k |-> k, c |-> c]
    /\ res' = [kind |-> "none"]        \* what the last checkout reported no longer describes the workspace
    /\ UNCHANGED <<cache, dirobjs, pc, args, todoDel, todoNew, needRm, pend, failed, touched, dev, n>>

Targets == {[kind |-> "none"]} \cup {[kind |-> "file", c |-> c] : c \in Contents}
              \cup {[kind |-> "tree", listing |-> l] : l \in UNION {[S -> Contents] : S \in SUBSET Keys}}
Next ==
    \* (the spelling changes nothing in the design - it is a parameter for the traces; exploring both would only double the states)
    \/ \E t \in Targets, f \in BOOLEAN, r \in BOOLEAN, p \in Prompts, st \in BOOLEAN : Begin(t, f, r, p, st, "plain")
    \/ \E k \in AllKeys : RemoveDel(k) \/ PromptDel(k) \/ RemoveNew(k) \/ PromptNew(k) \/ Create(k) \/ CreateDangling(k)
    \/ End \/ Crash \/ EndDoomed
    \/ \E c \in Contents : Evict(c) \/ Corrupt(c) \/ Arrive(c)
    \/ \E k \in AllKeys, c \in Contents : Replace(k, c)

(******************************* properties *********************************)
\* ---- C05: without force (and without an affirmative prompt) nothing that is not recoverable from
\* the cache is removed or overwritten; evaluated on every single Remove step
Unforced == ~args.force /\ args.prompt # "accepts"
\* (a dangling symbolic link holds no bytes)
Recoverable(C, f) == f = NoFile \/ f.c = "dangling" \/ InCache(C, f.c)
\* only the bytes count: a file whose link type changes (its cache object went away) keeps its content
C05_StepSafe(w, w2, C) == \A k \in AllKeys : (w.files[k] # NoFile /\ w2.files[k].c # w.files[k].c) => Recoverable(C, w.files[k])
Inv_C05 == (dev = {} /\ pc # "idle" /\ Unforced) =>
              \A k \in AllKeys : (args.pre.files[k] # NoFile /\ ws.files[k].c # args.pre.files[k].c /\ k \in touched)
                                    => Recoverable(cache, args.pre.files[k])
\* a refusal names a path that is still untouched
Inv_C05_Refusal == (res.kind = "PromptError" /\ Idle) =>
                      (IF res.key = Root THEN \A k \in AllKeys : ws.files[k] = args.pre.files[k] \/ k \in touched
                       ELSE ws.files[res.key] = args.pre.files[res.key])

\* ---- C10: convergence of a forced checkout whose target is fully cached and agrees in kind
Agrees(w, t) == (t.kind = "file" => w.kind \in {"absent", "file"}) /\ (t.kind = "tree" => w.kind \in {"absent", "dir"})
TargetCached(C, t) == IF t.kind = "file" THEN InCache(C, t.c)
                      ELSE IF t.kind = "tree" THEN \A k \in DOMAIN t.listing : InCache(C, t.listing[k]) ELSE FALSE
Converged(w, t) == IF t.kind = "file" THEN w.kind = "file" /\ w.files[Root].c = t.c
                   ELSE FilesOf(w) = TargetKeys(t) /\ \A k \in TargetKeys(t) : w.files[k].c = t.listing[k]
Inv_C10_Converges ==
    (Idle /\ res.kind = "ok" /\ TargetCached(cache, args.t) /\ args.force /\ Agrees(args.pre, args.t)) => Converged(ws, args.t)
Inv_C10_Relinked ==
    (Idle /\ res.kind = "ok" /\ args.relink /\ TargetCached(cache, args.t) /\ Agrees(args.pre, args.t) /\ dev = {}) =>
        \A k \in AllKeys : ws.files[k] # NoFile => ws.files[k].lt = LinkType

\* a second checkout of the same target right after a successful one finds nothing to do
Inv_C10_Idempotent ==
    (Idle /\ res.kind = "ok" /\ TargetCached(cache, args.t) /\ Agrees(args.pre, args.t) /\ dev = {})
        => ~DiffOf(ws, Checked(cache, ws, args.t), dirobjs, args.t, FALSE).any

Init == /\ ws \in InitWs /\ cache \in InitCache
        /\ dirobjs \in (IF ws.kind = "dir" THEN {{}, {ListingOf(ws)}} ELSE {{}})
        /\ pc = "idle" /\ args = [t |-> [kind |-> "none"]] /\ todoDel = {} /\ todoNew = {} /\ needRm = {} /\ pend = "-"
        /\ failed = {} /\ res = [kind |-> "none"] /\ touched = {} /\ act = [op |-> "Init"] /\ dev = {} /\ n = 0
Spec == Init /\ [][Next]_vars
=============================================================================
