------------------------------ MODULE LinkState ------------------------------
(***************************************************************************)
(* Link bookkeeping in the state database and the clean-up it drives        *)
(* (hashfile/state.py: State.save_link, set_link, get_unused_links,          *)
(* remove_links; hashfile/utils.py: get_mtime_and_size).  Second clause of   *)
(* property C05: clean-up only removes paths that the state database         *)
(* recorded itself, that the caller does not list as in use, and that have   *)
(* not been modified since they were recorded.                               *)
(*                                                                         *)
(* sig[p]   the path's signature as the record sees it: Absent, or a value   *)
(*          that every user modification renews - for a file (inode, mtime), *)
(*          for a directory the digest of {member file: mtime} (so adding,    *)
(*          removing, renaming or editing a member renews it)                 *)
(* rec[p]   the signature recorded for p (None = no row)                      *)
(* dirty[p] ghost: p was created, edited, replaced or removed-and-recreated   *)
(*          by the user after the last time it was recorded                   *)
(* A13-like assumption: a user modification always renews the signature (an   *)
(* in-place edit that restores inode and mtime cannot be seen by any scheme   *)
(* that records only those).                                                  *)
(***************************************************************************)
EXTENDS Naturals, FiniteSets, TLC

CONSTANTS Paths, MaxSteps
Absent == 0
None == 0

VARIABLES sig, rec, dirty, clock, last, act, steps
vars == <<sig, rec, dirty, clock, last, act, steps>>

Tick == steps' = steps + 1 /\ steps < MaxSteps
Exists(p) == sig[p] # Absent

\* the user creates the path (file or directory), edits it, replaces it (new inode), changes a member of the directory
Touch(p, how) ==
    /\ Tick /\ (how = "create" <=> ~Exists(p))
    /\ sig' = [sig EXCEPT ![p] = clock] /\ clock' = clock + 1
    /\ dirty' = [dirty EXCEPT ![p] = TRUE]
    /\ act' = [op |-> "Touch", p |-> p, how |-> how]
    /\ UNCHANGED <<rec, last>>
\* the user removes the path
Remove(p) ==
    /\ Tick /\ Exists(p)
    /\ sig' = [sig EXCEPT ![p] = Absent]
    /\ act' = [op |-> "Remove", p |-> p]
    /\ UNCHANGED <<rec, dirty, clock, last>>
\* save_link(path): the path as it is now becomes the recorded one; nothing is recorded for a missing path
Record(p) ==
    /\ Tick
    /\ IF Exists(p) THEN rec' = [rec EXCEPT ![p] = sig[p]] /\ dirty' = [dirty EXCEPT ![p] = FALSE]
       ELSE UNCHANGED <<rec, dirty>>
    /\ act' = [op |-> "Record", p |-> p]
    /\ UNCHANGED <<sig, clock, last>>
\* get_unused_links(used) + remove_links(unused)
Unused(used) == {p \in Paths : rec[p] # None /\ p \notin used /\ Exists(p) /\ rec[p] = sig[p]}
CleanUp(used) ==
    /\ Tick
    /\ LET u == Unused(used)
       IN /\ sig' = [p \in Paths |-> IF p \in u THEN Absent ELSE sig[p]]
          /\ rec' = [p \in Paths |-> IF p \in u THEN None ELSE rec[p]]
          /\ last' = [op |-> "cleanup", removed |-> u]
    /\ act' = [op |-> "CleanUp", used |-> used]
    /\ UNCHANGED <<dirty, clock>>

Next ==
    \/ \E p \in Paths, how \in {"create", "edit", "replace", "member"} : Touch(p, how)
    \/ \E p \in Paths : Remove(p) \/ Record(p)
    \/ \E used \in SUBSET Paths : CleanUp(used)
Init == /\ sig = [p \in Paths |-> Absent] /\ rec = [p \in Paths |-> None] /\ dirty = [p \in Paths |-> FALSE]
        /\ clock = 1 /\ last = [op |-> "none"] /\ act = [op |-> "Init"] /\ steps = 0
Spec == Init /\ [][Next]_vars

(******************************* C05 (clean-up) *****************************)
\* R = the recorded paths before, D = the dirty ones, U = what the caller listed as in use, X = what was removed
C05_CleanUpSafe(R, D, U, X) == X \subseteq (R \ U) \ D
\* and everything removable is removed (the clean-up does its job)
C05_CleanUpComplete(S, R, D, U, X) == {p \in (R \ U) \ D : S[p] # Absent} \subseteq X
Recorded == {p \in Paths : rec[p] # None}
Dirty == {p \in Paths : dirty[p]}
StepProps == act'.op = "CleanUp" =>
                /\ C05_CleanUpSafe(Recorded, Dirty, act'.used, last'.removed)
                /\ C05_CleanUpComplete(sig, Recorded, Dirty, act'.used, last'.removed)
                /\ \A p \in Paths : p \notin last'.removed => sig'[p] = sig[p]
StepPropsHold == [][StepProps]_vars
=============================================================================
