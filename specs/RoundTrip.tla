------------------------------- MODULE RoundTrip -------------------------------
(***************************************************************************)
(* Stage -> store -> checkout round trip, both routes.  Property C02.       *)
(* Composition of the operations specified in TreeCanon (staging a          *)
(* directory), ObjectStore (transfer of the staged objects), Checkout        *)
(* (object-level checkout into a fresh location) and IndexCheckout (index    *)
(* build / md5 / save, compare(None, index), apply into a fresh location).   *)
(*                                                                         *)
(* src   : the data, path -> content (Absent = no file); EmptyDirs = the     *)
(*         directories of src that contain no file (they are not tracked)    *)
(* A single file is the case Paths = {Root}.                                 *)
(* Concretisation (harness): a file named like its sibling directory plus a  *)
(* suffix ("s ü.a" / "s ü/"), a files-only directory whose name is a string   *)
(* prefix of its sibling directory ("s" / "s ü"), three levels of nesting.    *)
(***************************************************************************)
EXTENDS Naturals, FiniteSets, TLC

CONSTANTS Paths, Contents, Size, Routes, Spellings
\* Spellings = the ways the caller may write the source and target paths (plain absolute, with a trailing
\* separator, relative to the working directory): no result may depend on it
Absent == "-"

VARIABLES src, listing, counts, store, reloaded, fresh, pc, act, round
vars == <<src, listing, counts, store, reloaded, fresh, pc, act, round>>

Files(t) == {p \in Paths : t[p] # Absent}
Truth(t) == [p \in Files(t) |-> t[p]]
RECURSIVE Sum(_, _)
Sum(t, S) == IF S = {} THEN 0 ELSE LET p == CHOOSE p \in S : TRUE IN Size[t[p]] + Sum(t, S \ {p})

Init == /\ src \in [Paths -> Contents \cup {Absent}] /\ Files(src) # {}
        /\ listing = <<>> /\ counts = [nfiles |-> 0, size |-> 0] /\ store = {} /\ reloaded = <<>>
        /\ fresh = [r \in Routes |-> <<>>] /\ pc = "stage" /\ act = [op |-> "Init"] /\ round = 0
\* build(): the listing pairs every relative path with the digest of its bytes; meta counts files and bytes
Stage(sp) ==
         /\ pc = "stage"
         /\ listing' = Truth(src) /\ counts' = [nfiles |-> Cardinality(Files(src)), size |-> Sum(src, Files(src))]
         /\ pc' = "transfer" /\ act' = [op |-> "Stage", spelling |-> sp] /\ UNCHANGED <<src, store, reloaded, fresh, round>>
\* transfer(staging -> store, expanded): every listed content and the directory object
Transfer == /\ pc = "transfer"
            /\ store' = store \cup {<<"f", listing[p]>> : p \in DOMAIN listing} \cup {<<"d", listing>>}
            /\ pc' = "reload" /\ act' = [op |-> "Transfer"] /\ UNCHANGED <<src, listing, counts, reloaded, fresh, round>>
\* Tree.load(store, oid)
Reload == /\ pc = "reload" /\ <<"d", listing>> \in store
          /\ reloaded' = listing
          /\ pc' = "checkout" /\ act' = [op |-> "Reload"] /\ UNCHANGED <<src, listing, counts, store, fresh, round>>
\* checkout into a fresh location: every listed path materialised from its object
Checkout(r) == /\ pc = "checkout" /\ fresh[r] = <<>>
               /\ \A p \in DOMAIN listing : <<"f", listing[p]>> \in store
               /\ fresh' = [fresh EXCEPT ![r] = listing]
               /\ act' = [op |-> "Checkout", route |-> r]
               /\ pc' = IF \A q \in Routes \ {r} : fresh[q] # <<>> THEN "done" ELSE "checkout"
               /\ UNCHANGED <<src, listing, counts, store, reloaded, round>>
\* second round, same stores, same hash-state cache: two files of equal size (and equal mtime - an unpacked archive) have
\* been swapped by renaming; everything is staged, stored and checked out again and must reproduce the NEW data
Restage(p, q) ==
    /\ pc = "done" /\ round = 0 /\ p # q /\ src[p] # Absent /\ src[q] # Absent /\ src[p] # src[q] /\ Size[src[p]] = Size[src[q]]
    /\ src' = [src EXCEPT ![p] = src[q], ![q] = src[p]]
    /\ listing' = <<>> /\ counts' = [nfiles |-> 0, size |-> 0] /\ reloaded' = <<>> /\ fresh' = [r \in Routes |-> <<>>]
    /\ pc' = "stage" /\ round' = 1 /\ act' = [op |-> "Restage", p |-> p, q |-> q]
    /\ UNCHANGED store
Next == (\E p, q \in Paths : Restage(p, q)) \/ (\E sp \in Spellings : Stage(sp)) \/ Transfer \/ Reload \/ \E r \in Routes : Checkout(r)
Spec == Init /\ [][Next]_vars

(******************************* C02 predicates *****************************)
C02_Listing(t, l) == l = Truth(t)
C02_Counts(t, c) == c.nfiles = Cardinality(Files(t)) /\ c.size = Sum(t, Files(t))
C02_Reload(l, rl) == rl = l
C02_Fresh(t, f) == f = Truth(t)          \* exactly the original relative paths with byte-identical contents
Inv_C02 == /\ (pc \notin {"stage"} => C02_Listing(src, listing) /\ C02_Counts(src, counts))
           /\ (pc \in {"checkout", "done"} => C02_Reload(listing, reloaded))
           /\ \A r \in Routes : fresh[r] # <<>> => C02_Fresh(src, fresh[r])
=============================================================================
