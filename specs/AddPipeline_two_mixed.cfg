\* two writers under different unprivileged uids on a group-shared store
\* C16: two writers with overlapping requests, every interleaving of the file-system-grain steps, unprivileged (mode bits are enforced)
SPECIFICATION Spec
CONSTANTS
    Writers <- W2
    Files = {"f1", "f2", "f3"}
    DirOf <- DirTwo
    Req <- ReqTwo
    Style <- StyleT2
    Privileged = FALSE
    Mixed = TRUE
    KnownDev = {}
    MaxCrashes = 0
INVARIANT C16_AllSucceed
INVARIANT C16_Intact
