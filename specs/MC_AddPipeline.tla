--------------------------- MODULE MC_AddPipeline ---------------------------
EXTENDS AddPipeline
W1 == {"w1"}
W2 == {"w1", "w2"}
W3 == {"w1", "w2", "w3"}
ReqOne == [w \in W1 |-> {"f1", "f2"}]
DirOne == [w \in W1 |-> "d1"]
\* two writers staging overlapping content: both list f2
ReqTwo == [w \in W2 |-> IF w = "w1" THEN {"f1", "f2"} ELSE {"f2", "f3"}]
DirTwo == [w \in W2 |-> IF w = "w1" THEN "d1" ELSE "d2"]
ReqThree == [w \in W3 |-> IF w = "w1" THEN {"f1", "f2"} ELSE IF w = "w2" THEN {"f2", "f3"} ELSE {"f1", "f3"}]
DirThree == [w \in W3 |-> IF w = "w1" THEN "d1" ELSE IF w = "w2" THEN "d2" ELSE "d3"]
StyleT1 == [w \in W1 |-> "transfer"]
StyleA1 == [w \in W1 |-> "add"]
StyleAV1 == [w \in W1 |-> "addv"]
StyleT2 == [w \in W2 |-> "transfer"]
StyleT3 == [w \in W3 |-> "transfer"]
=============================================================================
