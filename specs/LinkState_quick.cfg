\* three paths, every history of <= 6 user changes / recordings / clean-ups with any "in use" list
SPECIFICATION Spec
CONSTANTS
    Paths = {"f", "g", "d"}
    MaxSteps = 6
PROPERTY StepPropsHold
CHECK_DEADLOCK FALSE
