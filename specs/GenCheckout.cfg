INIT GenInit
NEXT GenNext
CONSTANTS
    Keys <- KeysDef
    Contents <- ContentsDef
    Root = "."
    LinkType = "copy"
    KnownDev = {}
    MaxCheckouts = 0
    InitWs = {}
    InitCache = {}
    Twins <- TwinsDef
    Prompts = {}
