--------------------------- MODULE MC_ObjectStore ---------------------------
(* Constant definitions for exhaustive runs of ObjectStore.                 *)
EXTENDS ObjectStore

FilesDef == {"f1", "f2", "f3"}
DirsDef  == {"d1", "d2"}
ListsDef == [d \in DirsDef |-> IF d = "d1" THEN {"f1", "f2"} ELSE {"f2", "f3"}]
StoresDef == {"cache", "remote"}
ClassDef == [s \in StoresDef |-> IF s = "cache" THEN "local" ELSE "generic"]

\* closed requests (a directory together with its files) and a few open ones
ReqClosed == {{"d1", "f1", "f2"}, {"d2", "f2", "f3"}, {"d1", "d2", "f1", "f2", "f3"}, {"f1"}, {"f3"}}
ReqAll == ReqClosed \cup {{"d1"}, {"d1", "d2"}, {"d2", "f1"}}

EmptyStore == [o \in FilesDef \cup DirsDef |-> "none"]
FullOf(st) == [o \in FilesDef \cup DirsDef |-> st]
ClosedSets == {X \in SUBSET (FilesDef \cup DirsDef) : \A d \in X \cap DirsDef : ListsDef[d] \subseteq X}
\* cache complete and protected, remote any closed subset
InitPush == {[s \in StoresDef |-> IF s = "cache" THEN FullOf("ok_p")
                                  ELSE [o \in FilesDef \cup DirsDef |-> IF o \in X THEN "ok_u" ELSE "none"]]
             : X \in ClosedSets}
\* remote complete, cache any closed subset (fetch direction)
InitFetch == {[s \in StoresDef |-> IF s = "remote" THEN FullOf("ok_u")
                                   ELSE [o \in FilesDef \cup DirsDef |-> IF o \in X THEN "ok_p" ELSE "none"]]
              : X \in ClosedSets}
InitEmpty == {[s \in StoresDef |-> EmptyStore]}
PushPair == {<<"cache", "remote">>}
FetchPair == {<<"remote", "cache">>}
ShallowIdxModes == {<<TRUE, FALSE>>, <<TRUE, TRUE>>, <<FALSE, FALSE>>}

BothPairs == PushPair \cup FetchPair
AllModes == {<<TRUE, FALSE>>, <<TRUE, TRUE>>, <<FALSE, FALSE>>, <<FALSE, TRUE>>}
IdxModes == {<<TRUE, TRUE>>, <<FALSE, TRUE>>, <<TRUE, FALSE>>}
InitAny == InitEmpty \cup InitPush \cup InitFetch
AllOpKinds == {"add", "tamper", "extdel", "check", "status", "cmpstatus", "gc", "transfer", "abort"}
HonestOpKinds == {"add", "check", "status", "cmpstatus", "gc", "transfer", "abort"}

\* one store holding every mix of absent / intact / corrupt-unprotected objects, the other empty or full
FreshOf(s) == IF ClassDef[s] = "local" THEN "ok_p" ELSE "ok_u"
MixOf(s, X, B) == [o \in FilesDef \cup DirsDef |-> IF o \in X THEN (IF o \in B THEN "bad_u" ELSE FreshOf(s)) ELSE "none"]
InitMixed ==
    { [s \in StoresDef |-> IF s = a THEN MixOf(a, X, B) ELSE MixOf(s, Y, {})] :
        a \in StoresDef, X \in SUBSET (FilesDef \cup DirsDef), B \in SUBSET FilesDef,
        Y \in {{}, FilesDef \cup DirsDef} }
OneStep == TLCGet("level") < 2
TwoSteps == TLCGet("level") < 3

\* bound on the length of behaviours
Depth == 22
DepthOK == TLCGet("level") <= Depth
=============================================================================
