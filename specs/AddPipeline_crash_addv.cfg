\* C15: one writer, add-style (index.save, upload staging) on a store opened with verify=True: crash in every state, re-run, second crash
SPECIFICATION Spec
CONSTANTS
    Writers <- W1
    Files = {"f1", "f2"}
    DirOf <- DirOne
    Req <- ReqOne
    Style <- StyleAV1
    Privileged = TRUE
    Mixed = FALSE
    KnownDev = {}
    MaxCrashes = 2
INVARIANT C15_NoProtectedMismatch
INVARIANT C15_NoVouchedMismatch
INVARIANT C15_Closed
INVARIANT C15_RerunConverges
