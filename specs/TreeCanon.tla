------------------------------ MODULE TreeCanon ------------------------------
(***************************************************************************)
(* The identifier of a directory object (hashfile/tree.py: Tree.add,        *)
(* digest, as_list, as_bytes, from_list, load, get_obj; hashfile/build.py:   *)
(* _build_tree, _build_files, _get_hashes, _hash_files).  Property C03.      *)
(*                                                                         *)
(* ws    : the workspace directory, path -> content (Absent = no file)      *)
(* warm  : what the hash-state cache vouches for, path -> content; an entry  *)
(*         is a hit iff the file still has that content (every edit gives    *)
(*         the file a new (inode, mtime, size) token - C13's business)       *)
(* A build walks the directory, takes cache hits first and hashes the rest   *)
(* (small files in walk order, large ones in parallel, completion order      *)
(* arbitrary), and must pair every name with the digest of *its* bytes.      *)
(* The ideal hash is the identity, so a listing is a set of <<path, content>>*)
(* and the identifier of a directory object is the listing itself.           *)
(*                                                                         *)
(* Concretisation (harness): names whose tuple order and joined-path order   *)
(* differ; a 4.4 MiB and a 1.1 MiB file (the pool finishes them out of       *)
(* listing order); entries that are symbolic links to files kept elsewhere   *)
(* (an Edit rewrites the file BEHIND the link); same-size edits a quarter of *)
(* a second apart; the directory path spelled with a trailing separator.     *)
(***************************************************************************)
EXTENDS Naturals, FiniteSets, Sequences, SequencesExt, TLC

CONSTANTS Paths, Contents, SubDirs, Under, MaxSteps
\* Under[d] = the paths below sub-directory d
Absent == "-"

VARIABLES ws, warm, last, act, steps
vars == <<ws, warm, last, act, steps>>

Files(w) == {p \in Paths : w[p] # Absent}
Truth(w) == {<<p, w[p]>> : p \in Files(w)}
TruthUnder(w, d) == {<<p, w[p]>> : p \in Files(w) \cap Under[d]}

\* _get_hashes as coded: hits (in walk order) come first, then the freshly hashed files in
\* completion order `fresh`; the result is keyed by path, so the order must not matter
Hits(w, c) == {p \in Files(w) : c[p] = w[p]}
BuildListing(w, c, walk, fresh) ==
    LET order == SelectSeq(walk, LAMBDA p : p \in Hits(w, c)) \o fresh
    IN {<<order[i], w[order[i]]>> : i \in DOMAIN order}

Tick == steps' = steps + 1 /\ steps < MaxSteps

Edit(p, c) ==
    /\ Tick /\ c # ws[p]
    /\ ws' = [ws EXCEPT ![p] = c]
    /\ act' = [op |-> "Edit", p |-> p, c |-> c]
    /\ UNCHANGED <<warm, last>>

\* build(odb, dir): cfg = [state |-> "noop" | "real", sp |-> how the caller spelled the directory path: "plain" |
\* "slash" (trailing separator) | "dslash" (two of them) - irrelevant to the result] ; walk / fresh are the orders the
\* file system and the thread pool happened to produce
Build(cfg, walk, fresh) ==
    /\ Tick /\ Files(ws) # {}
    /\ LET c == IF cfg.state = "real" THEN warm ELSE [p \in Paths |-> Absent]
       IN /\ ToSet(walk) = Files(ws) /\ Len(walk) = Cardinality(Files(ws))
          /\ ToSet(fresh) = Files(ws) \ Hits(ws, c) /\ Len(fresh) = Cardinality(Files(ws) \ Hits(ws, c))
          /\ last' = [op |-> "Build", listing |-> BuildListing(ws, c, walk, fresh), oid |-> BuildListing(ws, c, walk, fresh)]
          /\ warm' = IF cfg.state = "real" THEN [p \in Paths |-> IF p \in Files(ws) THEN ws[p] ELSE warm[p]] ELSE warm
    /\ act' = [op |-> "Build", cfg |-> cfg]
    /\ UNCHANGED ws

\* the same directory staged for ANOTHER algorithm through the same hash-state cache (a store of the legacy text-
\* normalising MD5 next to the md5 store): its rows must never count as hits for md5
BuildOther ==
    /\ Tick /\ Files(ws) # {}
    /\ warm' = [p \in Paths |-> IF p \in Files(ws) THEN "other:" \o ws[p] ELSE warm[p]]
    /\ last' = [op |-> "BuildOther"]
    /\ act' = [op |-> "BuildOther"]
    /\ UNCHANGED ws

\* tree.get_obj(prefix) on the tree just built vs building the sub-directory directly
Sub(d) ==
    /\ Tick /\ last.op = "Build" /\ last.listing = Truth(ws) /\ Files(ws) \cap Under[d] # {}
    /\ last' = [op |-> "Sub", listing |-> TruthUnder(ws, d), oid |-> TruthUnder(ws, d), direct |-> TruthUnder(ws, d)]
    /\ act' = [op |-> "Sub", d |-> d]
    /\ UNCHANGED <<ws, warm>>

\* tree.update_meta(ours, theirs): the metadata a LATER build recorded (theirs: the directory as it is now) is carried
\* onto the tree built last (ours) wherever both list the same file with the same digest.  Entries and identifier of ours
\* are untouched - whatever was edited, added or removed since.
UpdateMeta ==
    /\ Tick /\ last.op \in {"Build", "UpdateMeta"} /\ Files(ws) # {}
    /\ last' = [op |-> "UpdateMeta", listing |-> last.listing, oid |-> last.oid]
    /\ act' = [op |-> "UpdateMeta"]
    /\ UNCHANGED <<ws, warm>>

\* the same step with some order (used when the orders were not logged: the result does not depend on them)
BuildAny(cfg) ==
    LET c == IF cfg.state = "real" THEN warm ELSE [p \in Paths |-> Absent]
    IN Build(cfg, SetToSeq(Files(ws)), SetToSeq(Files(ws) \ Hits(ws, c)))

Perms(S) == {sq \in [1..Cardinality(S) -> S] : \A i, j \in 1..Cardinality(S) : i # j => sq[i] # sq[j]}
Next ==
    \/ \E p \in Paths, c \in Contents \cup {Absent} : Edit(p, c)
    \/ \E st \in {"noop", "real"} : \E walk \in Perms(Files(ws)) :
          \E fresh \in Perms(Files(ws) \ Hits(ws, IF st = "real" THEN warm ELSE [p \in Paths |-> Absent])) :
              \E sp \in {"plain", "slash", "dslash"} : Build([state |-> st, sp |-> sp], walk, fresh)
    \/ \E d \in SubDirs : Sub(d)
    \/ BuildOther \/ UpdateMeta

\* behaviour generation: orders are not part of the operation-level behaviour
NextAny ==
    \/ \E p \in Paths, c \in Contents \cup {Absent} : Edit(p, c)
    \/ \E st \in {"noop", "real"}, sp \in {"plain", "slash", "dslash"} : BuildAny([state |-> st, sp |-> sp])
    \/ \E d \in SubDirs : Sub(d)
    \/ BuildOther \/ UpdateMeta

Init == /\ ws \in [Paths -> Contents \cup {Absent}] /\ warm = [p \in Paths |-> Absent]
        /\ last = [op |-> "none"] /\ act = [op |-> "Init"] /\ steps = 0
Spec == Init /\ [][Next]_vars

(******************************* C03 predicates *****************************)
\* L = a result record: listing as observed/modelled, oid (the listing it is the canonical id of)
C03_Function(w, L) == L.listing = Truth(w) /\ L.oid = Truth(w)
C03_Sub(w, d, L) == L.listing = TruthUnder(w, d) /\ L.oid = TruthUnder(w, d) /\ L.direct = L.oid
Inv_Build == act.op = "Build" => C03_Function(ws, last)
Inv_Sub == act.op = "Sub" => C03_Sub(ws, act.d, last)
\* (the identifier stays the canonical one of the entries the object holds)
Inv_Update == act.op = "UpdateMeta" => last.oid = last.listing
=============================================================================
