---------------------------- MODULE GenIndexDiff ----------------------------
(* TLC writes every well-formed index of the configured key universe as JSON. *)
EXTENDS MC_IndexDiff, Json, IOUtils
HJ(h) == IF h.k = "f" THEN h.v ELSE IF h.k = "d" THEN "D" ELSE IF h.k = "n" THEN "none" ELSE "-"
ToJ(idx) == [k \in Keys |-> [m |-> idx[k].m, h |-> HJ(idx[k].h)]]
Out(_u) == [keys |-> Keys, parent |-> Parent, indexes |-> {ToJ(i) : i \in AllIndexes}]
ASSUME JsonSerialize(IOEnv.GEN_OUT, Out(0))
GenInit == pc = "gen" /\ old = EmptyIdx /\ new = EmptyIdx /\ opts = [unchanged |-> FALSE, key |-> "none"] /\ queue = <<>> /\ out = {}
GenNext == UNCHANGED vars
=============================================================================
