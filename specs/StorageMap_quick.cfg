\* every mapping of the prefixes (), (a,sub), (b) to 2 caches x 2 remotes in every insertion order, <= 1 failing upload, retry, fetch
SPECIFICATION Spec
CONSTANTS
    PrefixSet <- PrefixesDef
    Len_ <- LenDef
    PrefOf <- PrefOfDef
    Entries <- EntriesDef
    Covers <- CoversDef
    ObjOf <- ObjOfDef
    Objects <- ObjectsDef
    Listed <- ListedDef
    Remotes <- RemotesDef
    Caches <- CachesDef
    KnownDev = {}
    Configs <- SaneConfigs
    MaxFaults = 1
INVARIANT Inv_Counts
INVARIANT Inv_RetryCompletes
INVARIANT Inv_FetchExact
