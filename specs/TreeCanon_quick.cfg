\* 3 paths (one sub-directory), 2 contents, all walk / completion orders, cold / warm / partially warm cache, <= 4 steps
SPECIFICATION Spec
CONSTANTS
    Paths <- PathsQ
    Contents = {"c1", "c2"}
    SubDirs <- SubDirsQ
    Under <- UnderQ
    MaxSteps = 4
INVARIANT Inv_Build
INVARIANT Inv_Sub
INVARIANT Inv_Update
