------------------------------ MODULE IndexDiff ------------------------------
(***************************************************************************)
(* Diff of two data indexes (dvc_data/index/diff.py: _diff_entry, _diff,    *)
(* _detect_renames, diff).  Property C08.                                   *)
(*                                                                         *)
(* An index is a function Keys -> Entry \cup {NoEntry}; keys form a tree     *)
(* (Parent).  An entry is [m, h]: m = metadata id ("none", file metas,      *)
(* "d" = directory meta), h = hash id ("none", file hashes, or for a        *)
(* directory <<"D", signature>> where the signature is the set of           *)
(* (descendant key, hash) pairs - "a directory hash is a function of its     *)
(* children").                                                              *)
(*                                                                         *)
(* Two layers:                                                              *)
(*   FlatDiff  - the key-by-key reference the property states;              *)
(*   the BFS   - the algorithm as coded (frontier queue, ls of both sides,   *)
(*               the hash_only shortcut, shallow), as actions.              *)
(* TLC checks BFS against FlatDiff for every pair of well-formed indexes    *)
(* and every option set; the trace spec checks every observed diff() call.   *)
(***************************************************************************)
EXTENDS Naturals, FiniteSets, Sequences, SequencesExt, TLC

CONSTANTS Keys, Parent, FileMetas, FileHashes, Root

\* hashes are records so that file hashes, directory hashes and "not set" are comparable values:
\* k = "-" (no entry), "n" (not set), "f" (file hash v), "d" (directory hash with signature sig)
H(k, v, sig) == [k |-> k, v |-> v, sig |-> sig]
NoH == H("n", "", {})
FileH(v) == H("f", v, {})
DirH(sig) == H("d", "", sig)
NoEntry == [m |-> "-", h |-> H("-", "", {})]
NoneV == "none"
IsEntry(e) == e.m # "-"
IsDirE(e) == IsEntry(e) /\ e.m = "d"
HasHash(e) == IsEntry(e) /\ e.h.k \in {"f", "d"}
HasMeta(e) == IsEntry(e) /\ e.m # NoneV
IsDirHash(h) == h.k = "d"

RECURSIVE Under(_, _)
Under(k, anc) == IF k = Root THEN FALSE ELSE (Parent[k] = anc \/ Under(Parent[k], anc))
Desc(k) == {c \in Keys : Under(c, k)}
Children(k) == {c \in Keys : Parent[c] = k}
\* a node exists in the trie when it has an entry or an entry below it
Node(idx, k) == IsEntry(idx[k]) \/ \E c \in Desc(k) : IsEntry(idx[c])
Sig(idx, k) == {<<c, idx[c].h>> : c \in {x \in Desc(k) : IsEntry(idx[x]) /\ ~IsDirE(idx[x])}}

WellFormed(idx) ==
    \A k \in Keys :
        /\ (\E c \in Desc(k) : IsEntry(idx[c])) => (~IsEntry(idx[k]) \/ IsDirE(idx[k]))
        /\ IsDirE(idx[k]) => (idx[k].h = NoH \/ idx[k].h = DirH(Sig(idx, k)))
        /\ (IsDirE(idx[k]) /\ idx[k].h # NoH) => \A c \in Desc(k) : IsEntry(idx[c]) /\ ~IsDirE(idx[c]) => HasHash(idx[c])
        /\ (IsEntry(idx[k]) /\ ~IsDirE(idx[k])) => idx[k].h.k \in {"f", "n"}
        \* the directory-object format is flat: a sub-directory of a hashed directory has no hash of its own
        /\ (IsDirE(idx[k]) /\ idx[k].h # NoH) => \A c \in Desc(k) : IsDirE(idx[c]) => idx[c].h = NoH

(************************ key-by-key classification ************************)
\* _diff_meta / _diff_hash_info on one aspect value ("-" = no entry, "none" = not set)
UnsetM(v) == v \in {"-", NoneV}
UnsetH(h) == h.k \in {"-", "n"}
Aspect(ounset, nunset, equal) ==
    IF ounset /\ ~nunset THEN "add"
    ELSE IF ~ounset /\ nunset THEN "delete"
    ELSE IF ~ounset /\ ~nunset /\ ~equal THEN "modify"
    ELSE "unchanged"

\* metadata as compared: an entry that has a hash but no metadata gets empty metadata
\* when its info is taken (index._info_from_entry -> _get_meta): named behaviour
EffMeta(e) == IF IsEntry(e) /\ e.m = NoneV /\ HasHash(e) THEN "empty" ELSE e.m

\* meta_cmp_key: metadata present on both sides is compared through a key function; whether metadata is present at all
\* is decided on the metadata itself, never on the key (a key function may well map a present meta to None):
\*   "none" - no key function;  "mode" - (isdir, isexec), what checkout compares;
\*   "cks"  - push._meta_checksum: the file system's checksum field (etag), None for a file that has none yet
ExecMetas == {"f2"}
CksOf(m) == IF m \in {"f3", "f4"} THEN "E1" ELSE "nokey"
KeyVal(key, m) ==
    IF key = "mode" THEN (IF m = "d" THEN "kd" ELSE IF m \in ExecMetas THEN "kx" ELSE "kp")
    ELSE IF key = "cks" THEN (IF m = "d" THEN "d" ELSE CksOf(m))
    ELSE m

\* the table of _diff_entry; mode \in {"entry", "hash", "meta"}
Table(o, n, mode, key) ==
    LET md == Aspect(UnsetM(EffMeta(o)), UnsetM(EffMeta(n)), KeyVal(key, EffMeta(o)) = KeyVal(key, EffMeta(n)))
        hd == Aspect(UnsetH(o.h), UnsetH(n.h), o.h = n.h)
    IN  IF mode = "meta" THEN md
        ELSE IF mode = "hash" THEN hd
        ELSE IF ~IsEntry(o) THEN "add"
        ELSE IF ~IsEntry(n) THEN "delete"
        ELSE IF md = "unchanged" /\ UnsetM(EffMeta(o)) THEN hd
        ELSE IF hd = "unchanged" /\ UnsetH(o.h) THEN md
        ELSE IF md = "unchanged" /\ hd = "unchanged" THEN "unchanged"
        ELSE "modify"

\* labels the property allows for key k: the table's, or - when both sides have an entry but
\* one aspect is set on one side only ("half specified") - also plain "modify"
HalfSpecified(o, n) ==
    IsEntry(o) /\ IsEntry(n) /\ (UnsetH(o.h) # UnsetH(n.h) \/ UnsetM(EffMeta(o)) # UnsetM(EffMeta(n)))
Allowed(o, n, mode, key) ==
    {Table(o, n, mode, key)} \cup (IF mode = "entry" /\ HalfSpecified(o, n) THEN {"modify"} ELSE {})

Either(old, new) == {k \in Keys : IsEntry(old[k]) \/ IsEntry(new[k])}
Mode(opts) == IF opts.hash_only THEN "hash" ELSE IF opts.meta_only THEN "meta" ELSE "entry"
Reported(typ, opts) == typ # "unchanged" \/ opts.unchanged
FlatDiff(old, new, opts) ==
    {<<Table(old[k], new[k], Mode(opts), opts.key), k>> : k \in Either(old, new)}

(****************************** the BFS as coded ***************************)
VARIABLES old, new, opts, queue, out, pc
vars == <<old, new, opts, queue, out, pc>>

InfoDir(idx, k) == IF IsEntry(idx[k]) THEN IsDirE(idx[k]) ELSE TRUE     \* entry None => directory
\* _get_items: children of k, unless shallow and k carries a hash
Items(idx, k, shallow) ==
    IF shallow /\ HasHash(idx[k]) THEN {} ELSE {c \in Children(k) : Node(idx, c)}

\* one frontier element = the children dicts of one directory on both sides
Visit ==
    /\ pc = "bfs" /\ queue # <<>>
    /\ LET fr == Head(queue)
           ks == fr.o \cup fr.n
           \* the entries compared are those of the two child listings: a key that one side did not
           \* list (shallow) looks absent on that side
           oe(k) == IF k \in fr.o THEN old[k] ELSE NoEntry
           ne(k) == IF k \in fr.n THEN new[k] ELSE NoEntry
           typ(k) == Table(oe(k), ne(k), Mode(opts), opts.key)
           skip(k) == /\ opts.hash_only /\ ~opts.unchanged /\ typ(k) = "unchanged"
                      /\ HasHash(oe(k)) /\ IsDirHash(oe(k).h)
           descend(k) == ~skip(k) /\ ((k \in fr.o /\ InfoDir(old, k)) \/ (k \in fr.n /\ InfoDir(new, k)))
           more == {[o |-> Items(old, k, opts.shallow), n |-> Items(new, k, opts.shallow)] : k \in {x \in ks : descend(x)}}
           morenz == {f \in more : f.o \cup f.n # {}}
       IN /\ out' = out \cup {<<typ(k), k>> : k \in {x \in ks : (IsEntry(oe(x)) \/ IsEntry(ne(x))) /\ Reported(typ(x), opts)}}
          /\ queue' = Tail(queue) \o SetToSeq(morenz)     \* the order of the frontier does not matter
    /\ UNCHANGED <<old, new, opts, pc>>

Finish == pc = "bfs" /\ queue = <<>> /\ pc' = "done" /\ UNCHANGED <<old, new, opts, queue, out>>

TopItems(idx) == {c \in Children(Root) : Node(idx, c)}
\* a side that is None or an empty index contributes no root item
InitQueue(o, n) == IF TopItems(o) \cup TopItems(n) = {} THEN <<>> ELSE <<[o |-> TopItems(o), n |-> TopItems(n)]>>

Next == Visit \/ Finish

(******************************* C08 predicates *****************************)
\* `shallow` deliberately does not look below a directory that carries a hash; the statement
\* makes no claim about that mode, so keys below a hashed directory are out of scope there
BelowHashed(o, n, k) == \E anc \in Keys : Under(k, anc) /\ (HasHash(o[anc]) \/ HasHash(n[anc]))
Scope(o, n, op) == IF op.shallow THEN {k \in Keys : ~BelowHashed(o, n, k)} ELSE Keys
\* on any reported set of <<typ, key>> changes `r` for inputs (o, n, op)
C08_Once(r) == \A c1, c2 \in r : c1[2] = c2[2] => c1 = c2
C08_Keys(o, n, op, r) ==
    LET got == {c[2] : c \in r} \cap Scope(o, n, op) IN
    /\ got \subseteq Either(o, n)
    /\ op.unchanged => got = Either(o, n) \cap Scope(o, n, op)
C08_Labels(o, n, op, r) ==
    \A c \in r : c[2] \in Scope(o, n, op) => c[1] \in Allowed(o[c[2]], n[c[2]], Mode(op), op.key)
\* nothing that differs in the compared aspect is hidden (hash_only / meta_only / the
\* unchanged-hashed-subtree shortcut)
C08_NothingHidden(o, n, op, r) ==
    \A k \in Either(o, n) \cap Scope(o, n, op) :
        ("unchanged" \notin Allowed(o[k], n[k], Mode(op), op.key)) => \E c \in r : c[2] = k /\ c[1] # "unchanged"
\* with_unknown: keys below a directory that could not be listed are labelled "unknown" - in these indexes every
\* directory can be listed (nothing is lazy), so the option changes nothing and no such label may appear (C08_Labels)
C08_NoUnchangedUnlessAsked(op, r) == ~op.unchanged => \A c \in r : c[1] # "unchanged"

Inv_Done ==
    pc = "done" =>
        /\ C08_Once(out) /\ C08_Keys(old, new, opts, out) /\ C08_Labels(old, new, opts, out)
        /\ C08_NothingHidden(old, new, opts, out) /\ C08_NoUnchangedUnlessAsked(opts, out)
\* without the shortcut and without shallow the BFS is exactly the flat reference
Inv_Exact ==
    (pc = "done" /\ ~opts.shallow /\ ~(opts.hash_only /\ ~opts.unchanged))
        => out = {c \in FlatDiff(old, new, opts) : Reported(c[1], opts)}
\* meta-theorems on the reference itself
Inv_SelfEmpty == \A c \in FlatDiff(old, old, opts) : c[1] = "unchanged"
Swap(t) == IF t = "add" THEN "delete" ELSE IF t = "delete" THEN "add" ELSE t
Inv_SwapSymmetric == FlatDiff(new, old, opts) = {<<Swap(c[1]), c[2]>> : c \in FlatDiff(old, new, opts)}

(******************************** renames ***********************************)
\* r = changes before pairing, q = output with renames <<"rename", oldkey, newkey>>
HashOf(idx, k) == idx[k].h
C08_Renames(o, n, r, q) ==
    LET ren == {c \in q : c[1] = "rename"}
        rest == {c \in q : c[1] # "rename"}
        adds == {c[2] : c \in {x \in r : x[1] = "add"}}
        dels == {c[2] : c \in {x \in r : x[1] = "delete"}}
        radd == {c[3] : c \in ren}
        rdel == {c[2] : c \in ren}
        uadd == {c[2] : c \in {x \in rest : x[1] = "add"}}
        udel == {c[2] : c \in {x \in rest : x[1] = "delete"}}
    IN /\ \A c \in ren : c[2] \in dels /\ c[3] \in adds /\ HasHash(n[c[3]]) /\ o[c[2]].h = n[c[3]].h
       /\ \A c1, c2 \in ren : (c1[2] = c2[2] \/ c1[3] = c2[3]) => c1 = c2          \* each key in one pair
       /\ radd \cap uadd = {} /\ rdel \cap udel = {}
       /\ radd \cup uadd = adds /\ rdel \cup udel = dels                       \* nothing lost or duplicated
       /\ {c \in rest : c[1] \notin {"add", "delete"}} = {c \in r : c[1] \notin {"add", "delete"}}
       /\ ~\E a \in uadd, d \in udel : HasHash(n[a]) /\ o[d].h = n[a].h          \* no matching pair left
=============================================================================
