\* the file-level entry points: every content of <= 4 units of 32 KiB over 5 unit kinds, read in one block of 1 MiB (32 units)
SPECIFICATION Spec
CONSTANTS
    Kinds = {"T", "C", "R", "L", "N"}
    MaxLen = 4
    ReadSizes = {32}
    WindowUnits = 1
    Short = FALSE
INVARIANT Inv_PassThrough
INVARIANT Inv_Plain
INVARIANT Inv_Legacy
INVARIANT GenPrint
