--------------------------- MODULE GenObjectStore ---------------------------
(* Case generation for the conformance harness: TLC evaluates, with the very   *)
(* definitions of the design specification, the operation-level cases that the *)
(* harness replays on the real code, and writes them as JSON.                  *)
EXTENDS MC_ObjectStore, Json, IOUtils

XferCases(inits, pairs, reqs, modes, maxf) ==
    { [init |-> S, src |-> p[1], dst |-> p[2], req |-> r, shallow |-> m[1], idx |-> m[2], F |-> F] :
        S \in inits, p \in pairs, r \in reqs, m \in modes,
        F \in {G \in SUBSET Oids : Cardinality(G) <= maxf}
      } 

\* only failing subsets of what will actually be uploaded
Meaningful(c) ==
    /\ Loadable(c.init, c.src, c.req, c.shallow)
    /\ c.F \subseteq XStatus(c.init, {}, c.src, c.dst, c.req, c.shallow, c.idx).new
    /\ XStatus(c.init, {}, c.src, c.dst, c.req, c.shallow, c.idx).new # {}

PushCases  == {c \in XferCases(InitPush, PushPair, ReqClosed, ShallowIdxModes, 2) : Meaningful(c)}
FetchCases == {c \in XferCases(InitFetch, FetchPair, ReqClosed, {<<TRUE, FALSE>>, <<FALSE, FALSE>>}, 2) : Meaningful(c)}

GenInit == Init
GenNext == UNCHANGED vars
ASSUME JsonSerialize(IOEnv.GEN_OUT, [push |-> PushCases, fetch |-> FetchCases])
=============================================================================
