--------------------------- MODULE GenObjectStore ---------------------------
(* Case generation for the conformance harness: TLC evaluates, with the very   *)
(* definitions of the design specification, the operation-level cases that the *)
(* harness replays on the real code, and writes them as JSON.                  *)
EXTENDS MC_ObjectStore, Json, IOUtils

XferCases(inits, pairs, reqs, modes, maxf) ==
    { [init |-> S, src |-> p[1], dst |-> p[2], req |-> r, shallow |-> m[1], idx |-> m[2], F |-> F] :
        S \in inits, p \in pairs, r \in reqs, m \in modes,
        F \in {G \in SUBSET Oids : Cardinality(G) <= maxf}
      } 

\* only failing subsets of what will actually be uploaded
Meaningful(c) ==
    /\ Loadable(c.init, c.src, c.req, c.shallow)
    /\ LET new == XStatus(c.init, {}, c.src, c.dst, c.req, c.shallow, c.idx).new
       IN c.F \subseteq new /\ new # {}

PushCases(_u) == {c \in XferCases(InitPush, PushPair, ReqClosed, ShallowIdxModes, 2) : Meaningful(c)}
FetchCases(_u) == {c \in XferCases(InitFetch, FetchPair, ReqClosed, {<<TRUE, FALSE>>, <<FALSE, FALSE>>, <<TRUE, TRUE>>}, 2) : Meaningful(c)}

(***************************** C06 : gc ******************************************)
Fresh(s) == IF Class[s] = "local" THEN "ok_p" ELSE "ok_u"
Only(s, f) == [t \in Stores |-> IF t = s THEN f ELSE [o \in Oids |-> Absent]]
Holding(s, X) == Only(s, [o \in Oids |-> IF o \in X THEN Fresh(s) ELSE Absent])
GcCases(_u) ==
    { [init |-> Holding(s, X), s |-> s, used |-> u, foreign |-> fo, ord |-> ord, shallow |-> sh, dry |-> dry, ro |-> ro, cs |-> s, cro |-> FALSE] :
        s \in Stores, X \in SUBSET Oids, u \in SUBSET Oids, fo \in {{}, {"f1"}, {"d2", "f3"}},
        ord \in {"used-first", "foreign-first"}, sh \in BOOLEAN, dry \in BOOLEAN, ro \in {FALSE} }
    \cup
    { [init |-> Holding(s, X), s |-> s, used |-> u, foreign |-> {}, ord |-> "used-first", shallow |-> sh, dry |-> FALSE, ro |-> TRUE, cs |-> s, cro |-> FALSE] :
        s \in Stores, X \in {Oids, {"f1", "d2"}}, u \in {{}, {"d1"}, {"f1", "f2"}}, sh \in BOOLEAN }

\* a separate cache_odb handle: the other store holds the trees (all of them, or none), every mix of the two read-only flags
Other(s) == CHOOSE t \in Stores : t # s
GcViaCases(_u) ==
    { [init |-> [t \in Stores |-> IF t = s THEN [o \in Oids |-> IF o \in X THEN Fresh(s) ELSE Absent]
                                            ELSE [o \in Oids |-> IF o \in Y THEN Fresh(t) ELSE Absent]],
       s |-> s, used |-> u, foreign |-> {}, ord |-> "used-first", shallow |-> sh, dry |-> dry, ro |-> ro, cs |-> Other(s), cro |-> cro] :
        s \in Stores, X \in {Oids, {"f1", "f2", "f3", "d2"}, {"f1", "d1"}}, Y \in {Oids, {}}, u \in {{}, {"d1"}, {"d1", "d2"}, {"f1", "d2"}},
        sh \in BOOLEAN, dry \in BOOLEAN, ro \in BOOLEAN, cro \in BOOLEAN }

(***************************** C12 / C07 : status, check **************************)
\* one store holding every mix of absent / intact / corrupt-unprotected objects
Mixes(s) == { [o \in Oids |-> IF o \in X THEN (IF o \in B THEN "bad_u" ELSE Fresh(s)) ELSE Absent] :
                X \in SUBSET Oids, B \in SUBSET Files }
QueryIds == ReqAll \cup {{"f1", "f2"}, {"f2"}, {"d2"}}
StatusCases(_u) ==
    UNION { { [init |-> Only(s, m), s |-> s, ids |-> ids, shallow |-> sh] :
                m \in Mixes(s), ids \in QueryIds, sh \in BOOLEAN } : s \in Stores }
CheckStates(s) == {Absent, "ok_u", "bad_u"} \cup (IF Class[s] = "local" THEN {"ok_p"} ELSE {})
CheckCases(_u) ==
    UNION { { [init |-> Only(s, [x \in Oids |-> IF x = o THEN st ELSE IF x \in {"f2", "d1"} THEN Fresh(s) ELSE Absent]),
               s |-> s, o |-> o] : o \in Oids, st \in CheckStates(s) } : s \in Stores }

(***************************** C11 : truthfulness **********************************)
\* source holding any subset (so that requested objects can be missing on both sides),
\* destination any closed subset, any request
AnySrc(src, dst) ==
    { [t \in Stores |-> IF t = src THEN [o \in Oids |-> IF o \in X THEN Fresh(src) ELSE Absent]
                                    ELSE [o \in Oids |-> IF o \in Y THEN Fresh(dst) ELSE Absent]] :
        X \in SUBSET Oids, Y \in ClosedSets }
C11Cases(_u) ==
    { c \in XferCases(AnySrc("cache", "remote"), PushPair, ReqAll, ShallowIdxModes, 1)
            \cup XferCases(AnySrc("remote", "cache"), FetchPair, ReqAll, {<<TRUE, FALSE>>, <<FALSE, FALSE>>}, 1) :
        Meaningful(c) }
\* quick tier: sources lacking at most two objects, one failing upload at most
NearlyFull(src, dst) ==
    { [t \in Stores |-> IF t = src THEN [o \in Oids |-> IF o \in X THEN Fresh(src) ELSE Absent]
                                    ELSE [o \in Oids |-> IF o \in Y THEN Fresh(dst) ELSE Absent]] :
        X \in {Z \in SUBSET Oids : Cardinality(Oids \ Z) <= 2}, Y \in {{}, {"f1"}, {"f2", "f3"}, {"f1", "f2", "d1"}} }
C11Quick(_u) ==
    { c \in XferCases(NearlyFull("cache", "remote"), PushPair, ReqAll, ShallowIdxModes, 1)
            \cup XferCases(NearlyFull("remote", "cache"), FetchPair, ReqAll, {<<TRUE, FALSE>>, <<FALSE, FALSE>>}, 1) :
        Meaningful(c) }
\* generic source with corrupt file objects, fetched into the local cache with and without verify
CorruptSrc(_u) ==
    { [t \in Stores |-> IF t = "remote" THEN [o \in Oids |-> IF o \in B THEN "bad_u" ELSE "ok_u"]
                                        ELSE [o \in Oids |-> IF o \in Y THEN "ok_p" ELSE Absent]] :
        B \in (SUBSET Files) \ {{}}, Y \in ClosedSets }
VerifyCases(_u) ==
    { [init |-> S, src |-> "remote", dst |-> "cache", req |-> r, shallow |-> sh, idx |-> FALSE, F |-> {}, verify |-> v] :
        S \in CorruptSrc(0), r \in ReqClosed, sh \in BOOLEAN, v \in BOOLEAN }

(***************************** C11 / C12 : stale remote index **********************)
\* the cache is complete; a first indexed push of r1 fills the index; E is then deleted from the remote behind the
\* library's back; the final indexed query or push (of any request) meets an index that is stale in E
PushFull == [s \in Stores |-> IF s = "cache" THEN FullOf("ok_p") ELSE EmptyStore]
StaleCases(_u) ==
    { [init |-> PushFull, r1 |-> r1, sh1 |-> sh1, E |-> E, kind |-> k, ids |-> ids, shallow |-> sh] :
        r1 \in {{"d1", "f1", "f2"}, {"d1", "d2", "f1", "f2", "f3"}}, sh1 \in BOOLEAN,
        E \in {G \in SUBSET Oids : Cardinality(G) \in {1, 2}}, k \in {"status", "transfer"},
        ids \in ReqAll, sh \in BOOLEAN }

(***************************** C04 / C11 : push through a data index ****************)
\* dvc_data.index.push: the request is what the index lists - always closed, shallow, no failing upload needed -
\* from a cache that holds every requested directory object but any subset of the files
IndexPushCases(_u) ==
    { c \in XferCases(AnySrc("cache", "remote"), PushPair, ReqClosed, {<<TRUE, FALSE>>}, 1) :
        /\ \A d \in c.req \cap Dirs : Present(c.init, "cache", d)
        /\ c.F \subseteq XStatus(c.init, {}, c.src, c.dst, c.req, c.shallow, c.idx).new }

GenInit == Init
GenNext == UNCHANGED vars
What == IOEnv.GEN_WHAT
Out == CASE What = "xfer"   -> [push |-> PushCases(0), fetch |-> FetchCases(0)]
         [] What = "gc"     -> [gc |-> {c \in GcCases(0) : c.foreign = {} => c.ord = "used-first"}, gcvia |-> GcViaCases(0)]
         [] What = "status" -> [status |-> StatusCases(0), check |-> CheckCases(0)]
         [] What = "c11"    -> [c11 |-> C11Cases(0), verify |-> VerifyCases(0)]
         [] What = "stale"  -> [stale |-> {c \in StaleCases(0) : c.E \subseteq c.r1}]
         [] What = "ipush"  -> [ipush |-> IndexPushCases(0)]
         [] What = "c11quick" -> [c11 |-> C11Quick(0), verify |-> VerifyCases(0)]
ASSUME JsonSerialize(IOEnv.GEN_OUT, Out)
=============================================================================
