---------------------------- MODULE MC_StorageMap ----------------------------
EXTENDS StorageMap
PrefixesDef == {"", "a/sub", "b"}
PrefOfDef == [p \in PrefixesDef |-> IF p = "" THEN {""} ELSE {"", p}]
LenDef == [p \in PrefixesDef |-> IF p = "" THEN 0 ELSE IF p = "b" THEN 1 ELSE 2]
EntriesDef == {"foo", "a", "a/x", "a/sub/y", "a/sub/deep/z", "b", "b/w"}
CoversDef == [p \in PrefixesDef |-> IF p = "" THEN EntriesDef ELSE IF p = "b" THEN {"b", "b/w"} ELSE {"a/sub/y", "a/sub/deep/z"}]
ObjOfDef == [k \in EntriesDef |-> CASE k = "foo" -> "of" [] k = "a" -> "Da" [] k = "a/x" -> "ax" [] k = "a/sub/y" -> "ay"
                                     [] k = "a/sub/deep/z" -> "az" [] k = "b" -> "Db" [] k = "b/w" -> "ax"]      \* b/w has the content of a/x: one object, two directories
ObjectsDef == {"of", "Da", "ax", "ay", "az", "Db"}
ListedDef == [d \in {"Da", "Db"} |-> IF d = "Da" THEN {"ax", "ay", "az"} ELSE {"ax"}]
RemotesDef == {"R0", "R1"}
CachesDef == {"C0", "C1"}
Slots == {[cache |-> c, remote |-> r] : c \in CachesDef \cup {"-"}, r \in RemotesDef \cup {"-"}} \ {[cache |-> "-", remote |-> "-"]}
Perms(S) == {sq \in [1..Cardinality(S) -> S] : \A i, j \in 1..Cardinality(S) : i # j => sq[i] # sq[j]}
AllConfigs == UNION {{[smap |-> m, order |-> o] : m \in [P -> Slots], o \in Perms(P)} : P \in (SUBSET PrefixesDef) \ {{}}}
\* the data lives in cache C0: configurations in which every prefix that names a remote names C0 as its cache
PushableConfigs == {cf \in AllConfigs : \A p \in DOMAIN cf.smap : cf.smap[p].remote # "-" => cf.smap[p].cache \in {"C0", "C1"}}
\* mappings in which the root prefix designates both a cache and a remote (every entry then resolves to some store
\* for both roles; longer prefixes override per role)
SaneConfigs == {cf \in PushableConfigs : "" \in DOMAIN cf.smap /\ cf.smap[""].remote # "-" /\ cf.smap[""].cache # "-"}
=============================================================================
