----------------------------- MODULE AddPipeline -----------------------------
(***************************************************************************)
(* Adding objects to a local store at file-system-call grain                *)
(* (dvc_objects/db.py: ObjectDB.add; dvc_objects/fs/generic.py: transfer,    *)
(* _try_links, copy; fs/local.py: put_file; fs/system.py: reflink;           *)
(* hashfile/db/__init__.py: HashFileDB.add epilogue; hashfile/state.py:      *)
(* save_many; hashfile/transfer.py; index/save.py).                          *)
(* Properties C15 (crash anywhere, re-run recovers; one writer) and C16       *)
(* (concurrent writers).                                                     *)
(*                                                                         *)
(* final[o]  what is at the object's final path:                            *)
(*           "none" | "empty" | "ok" | ("partial" never at a final path)     *)
(* prot[o]   the file at the final path has mode 0o444                       *)
(* gen[o]    incarnation counter of the file at the final path (a new inode  *)
(*           or a truncation changes the (inode, mtime, size) token)         *)
(* vouch[o]  the incarnation a hash-state row vouches for (0 = no row)       *)
(* tmp[w][o] writer w's temporary copy of o: "none" | "empty" | "full"       *)
(*                                                                         *)
(* A writer runs: Query (per-style existence query over its whole request),  *)
(* then for its files batch and then its directory-object batch:             *)
(*   ProbeOpen / ProbeUnlink - the reflink attempt on the FIRST object of    *)
(*       the batch creates (O_CREAT|O_TRUNC) and removes a file at the final  *)
(*       path itself;                                                        *)
(*   TmpCopy, Rename per object; Protect per object; Vouch (one transaction). *)
(* Crash is enabled in every state (one writer); Rerun starts the same        *)
(* operation again on whatever the crash left.                               *)
(***************************************************************************)
EXTENDS Naturals, FiniteSets, Sequences, TLC

CONSTANTS Writers, Files, DirOf, Req, Style, Privileged, Mixed, KnownDev, MaxCrashes
\* Mixed = every writer runs under its own (unprivileged) uid on a group-shared store: a chmod of a file another
\* writer owns gives EPERM, which protect() swallows
\* Req[w] = the file objects writer w adds; DirOf[w] = its directory object; Style[w] = "transfer" | "add"
Objects == UNION {Req[w] : w \in Writers} \cup {DirOf[w] : w \in Writers}

VARIABLES final, prot, gen, vouch, tmp, pc, todo, batch, first, probed, failedW, crashes, clock, dev, act, owner, tried, srcok
vars == <<final, prot, gen, vouch, tmp, pc, todo, batch, first, probed, failedW, crashes, clock, dev, act, owner, tried, srcok>>

Intact(o) == final[o] = "ok"
Vouched(o) == vouch[o] # 0 /\ vouch[o] = gen[o]       \* a row whose token matches the file now there
BatchOf(w, ph) == IF ph = "files" THEN Req[w] ELSE {DirOf[w]}

(******************************** one writer *******************************)
\* the existence query that decides what to (re)send.
\*   transfer-style: LocalHashFileDB.oids_exist -> check(): a 0o444 file is trusted, anything else is re-hashed:
\*                   mismatch -> removed, match -> protected
\*   add-style:      ObjectDB.add(check_exists=True): the final path exists (any content)
\*   addv:           add-style on a store opened with verify=True: HashFileDB.add first runs check() on every oid it is
\*                   given, which heals what a crash left behind exactly like the transfer-style query
Query(w) ==
    /\ pc[w] = "query"
    /\ LET all == Req[w] \cup {DirOf[w]}
           bad == {o \in all : final[o] = "empty" /\ ~prot[o]}
       IN IF Style[w] \in {"transfer", "addv"}
          THEN /\ final' = [o \in Objects |-> IF o \in bad THEN "none" ELSE final[o]]
               /\ prot' = [o \in Objects |-> IF o \in all /\ final[o] = "ok" THEN TRUE ELSE IF o \in bad THEN FALSE ELSE prot[o]]
               /\ todo' = [todo EXCEPT ![w] = {o \in all : final[o] = "none" \/ o \in bad}]
               \* (re-hashing an unprotected object through the state cache records a row for it)
               /\ vouch' = [o \in Objects |-> IF o \in all /\ final[o] = "ok" /\ ~prot[o] THEN gen[o] ELSE vouch[o]]
          ELSE /\ todo' = [todo EXCEPT ![w] = {o \in all : final[o] = "none"}]
               /\ UNCHANGED <<final, prot, vouch, owner, tried, srcok>>
    /\ pc' = [pc EXCEPT ![w] = "files"] /\ batch' = [batch EXCEPT ![w] = {}] /\ first' = [first EXCEPT ![w] = "yes"]
    /\ act' = [op |-> "Query", w |-> w]
    /\ UNCHANGED <<gen, tmp, failedW, crashes, clock, dev, probed, owner, tried, srcok>>

Phase(w) == pc[w] \in {"files", "dir"}
Pending(w) == todo[w] \cap BatchOf(w, pc[w])
\* first[w]: "yes" no object of this batch handled yet | "unlink" probe file open | <object> probe done on it |
\*           "copied" the probed object has been copied
\* the reflink attempt on the first object of a batch: os.open(final, O_WRONLY|O_CREAT|O_TRUNC) ...
\* (the add()-style callers - index.save, upload staging - take the directory object from the in-memory staging area:
\* no link of any kind is tried across file systems, so that batch starts with the copy; a transfer may also have a
\* local store as its source, and then the directory object is probed like any file)
ProbeOpen(w, o) ==
    /\ Phase(w) /\ (pc[w] = "files" \/ Style[w] = "transfer") /\ first[w] = "yes" /\ o \in Pending(w) /\ tmp[w][o] = "none"
    /\ IF ~Privileged /\ final[o] # "none" /\ prot[o]
       THEN \* F10 (open): EACCES on another writer's protected object is not a tolerated errno: this writer fails
            /\ failedW' = failedW \cup {w} /\ pc' = [pc EXCEPT ![w] = "failed"]
            /\ dev' = IF "F10" \in KnownDev THEN dev \cup {"F10"} ELSE dev
            /\ UNCHANGED <<final, gen, clock, first, srcok>>
       ELSE /\ final' = [final EXCEPT ![o] = "empty"]
            /\ gen' = [gen EXCEPT ![o] = clock] /\ clock' = clock + 1
            /\ first' = [first EXCEPT ![w] = "unlink"]
            /\ UNCHANGED <<failedW, pc, dev, srcok>>
    /\ probed' = [probed EXCEPT ![w] = o]
    /\ owner' = IF final[o] = "none" THEN [owner EXCEPT ![o] = w] ELSE owner     \* O_CREAT makes it ours only when it was not there
    /\ act' = [op |-> "ProbeOpen", w |-> w, o |-> o]
    /\ UNCHANGED <<prot, vouch, tmp, todo, batch, crashes, tried, srcok>>
\* ... ioctl(FICLONE) fails, os.unlink(final)
ProbeUnlink(w, o) ==
    /\ Phase(w) /\ first[w] = "unlink" /\ o \in Pending(w) /\ tmp[w][o] = "none" /\ probed[w] = o
    /\ final' = [final EXCEPT ![o] = "none"] /\ prot' = [prot EXCEPT ![o] = FALSE]
    /\ first' = [first EXCEPT ![w] = "probed"]
    /\ act' = [op |-> "ProbeUnlink", w |-> w, o |-> o]
    /\ UNCHANGED <<gen, vouch, tmp, pc, todo, batch, failedW, crashes, clock, dev, probed, owner, tried, srcok>>
\* the probed object is copied first, the others afterwards (one put_file each: copy to a temporary name, rename)
CanCopy(w, o) == /\ Phase(w) /\ o \in Pending(w) /\ tmp[w][o] = "none"
                 /\ (first[w] = "probed" /\ probed[w] = o) \/ first[w] = "copied" \/ (pc[w] = "dir" /\ Style[w] # "transfer")
\* a writer copies from ITS OWN source (its workspace, its staging area), which is intact for as long as it runs
TmpCopy(w, o) ==
    /\ CanCopy(w, o) /\ srcok[w]
    /\ tmp' = [tmp EXCEPT ![w][o] = "full"]
    /\ first' = [first EXCEPT ![w] = "copied"]
    /\ act' = [op |-> "TmpCopy", w |-> w, o |-> o]
    /\ UNCHANGED <<final, prot, gen, vouch, pc, todo, batch, failedW, crashes, clock, dev, probed, owner, tried, srcok>>
Rename(w, o) ==
    /\ Phase(w) /\ tmp[w][o] = "full"
    /\ final' = [final EXCEPT ![o] = "ok"] /\ prot' = [prot EXCEPT ![o] = FALSE]
    /\ gen' = [gen EXCEPT ![o] = clock] /\ clock' = clock + 1
    /\ tmp' = [tmp EXCEPT ![w][o] = "none"]
    /\ todo' = [todo EXCEPT ![w] = @ \ {o}] /\ batch' = [batch EXCEPT ![w] = @ \cup {o}]
    /\ owner' = [owner EXCEPT ![o] = w]
    /\ act' = [op |-> "Rename", w |-> w, o |-> o]
    /\ UNCHANGED <<vouch, pc, first, failedW, crashes, dev, probed, tried, srcok>>
\* HashFileDB.add epilogue: protect every oid passed to the call, then one save_many transaction vouching for each
\* of them as it is at that moment.  transfer() passes only what its status query found missing; add()-style
\* callers (index.save, build with upload) pass the whole batch, also what "already exists".
Epilogue(w) == IF Style[w] = "transfer" THEN batch[w] ELSE BatchOf(w, pc[w])
Sealable(w) == Phase(w) /\ Pending(w) = {} /\ \A o \in Objects : tmp[w][o] = "none" /\ first[w] # "unlink"
\* addv: the epilogue verifies each object before protecting it - check() re-hashes it through the state cache, which
\* records a row for it, and only then makes it read-only
VerifyOne(w, o) ==
    /\ Style[w] = "addv" /\ Sealable(w) /\ o \in Epilogue(w) /\ final[o] = "ok" /\ ~prot[o] /\ ~Vouched(o)
    /\ vouch' = [vouch EXCEPT ![o] = gen[o]]
    /\ act' = [op |-> "VerifyOne", w |-> w, o |-> o]
    /\ UNCHANGED <<final, prot, gen, tmp, pc, todo, batch, first, probed, failedW, crashes, clock, dev, owner, tried, srcok>>
Protect(w, o) ==
    /\ Sealable(w) /\ o \in Epilogue(w) /\ final[o] # "none" /\ ~prot[o] /\ o \notin tried[w]
    /\ (Style[w] = "addv" /\ final[o] = "ok") => Vouched(o)
    \* named behaviour: chmod of a file that another uid owns gives EPERM; protect() logs it and goes on - the owner
    \* protects the object in its own epilogue
    /\ prot' = IF Mixed /\ owner[o] # w THEN prot ELSE [prot EXCEPT ![o] = TRUE]
    /\ tried' = [tried EXCEPT ![w] = @ \cup {o}]
    \* F7 (open): what is protected here may be the empty file a crash inside the reflink probe left behind
    /\ dev' = IF final[o] = "empty" /\ "F7" \in KnownDev THEN dev \cup {"F7"} ELSE dev
    /\ act' = [op |-> "Protect", w |-> w, o |-> o]
    /\ UNCHANGED <<final, gen, vouch, tmp, pc, todo, batch, first, failedW, crashes, clock, probed, owner, srcok>>
Vouch(w) ==
    /\ Sealable(w) /\ \A o \in Epilogue(w) : final[o] # "none" => (prot[o] \/ o \in tried[w])
    /\ vouch' = [o \in Objects |-> IF o \in Epilogue(w) /\ final[o] # "none" THEN gen[o] ELSE vouch[o]]
    /\ dev' = IF (\E o \in Epilogue(w) : final[o] = "empty") /\ "F7" \in KnownDev THEN dev \cup {"F7"} ELSE dev
    /\ pc' = [pc EXCEPT ![w] = IF pc[w] = "files" THEN "dir" ELSE "done"]
    /\ first' = [first EXCEPT ![w] = "yes"] /\ batch' = [batch EXCEPT ![w] = {}]
    /\ tried' = [tried EXCEPT ![w] = {}]
    /\ act' = [op |-> "Vouch", w |-> w]
    /\ UNCHANGED <<final, prot, gen, tmp, todo, failedW, crashes, clock, probed, owner, srcok>>

\* transfer(): a batch in which nothing is new is not handed to add() at all
NothingToSend(w) ==
    /\ Phase(w) /\ Style[w] = "transfer" /\ Pending(w) = {} /\ batch[w] = {} /\ first[w] = "yes"
    /\ pc' = [pc EXCEPT ![w] = IF pc[w] = "files" THEN "dir" ELSE "done"]
    /\ act' = [op |-> "NothingToSend", w |-> w]
    /\ UNCHANGED <<final, prot, gen, vouch, tmp, todo, batch, first, probed, failedW, crashes, clock, dev, owner, tried, srcok>>

\* a writer that is done moves on: its workspace is rewritten or removed.  Nobody else may depend on it.
Retire(w) ==
    /\ pc[w] \in {"done", "failed"} /\ srcok[w]
    /\ srcok' = [srcok EXCEPT ![w] = FALSE]
    /\ act' = [op |-> "Retire", w |-> w]
    /\ UNCHANGED <<final, prot, gen, vouch, tmp, pc, todo, batch, first, probed, failedW, crashes, clock, dev, owner, tried>>

(***************************** crash and re-run *****************************)
Crash ==
    /\ crashes < MaxCrashes /\ Cardinality(Writers) = 1 /\ \E w \in Writers : pc[w] \notin {"done", "crashed"}
    /\ pc' = [w \in Writers |-> "crashed"]
    /\ tmp' = tmp          \* temporaries stay behind under their temporary names
    /\ crashes' = crashes + 1
    /\ act' = [op |-> "Crash"]
    /\ UNCHANGED <<final, prot, gen, vouch, todo, batch, first, failedW, clock, dev, probed, owner, tried, srcok>>
Rerun(w) ==
    /\ pc[w] = "crashed"
    /\ pc' = [pc EXCEPT ![w] = "query"] /\ todo' = [todo EXCEPT ![w] = {}] /\ batch' = [batch EXCEPT ![w] = {}]
    /\ first' = [first EXCEPT ![w] = "yes"]
    /\ tmp' = [tmp EXCEPT ![w] = [o \in Objects |-> "none"]]   \* a new run uses new temporary names
    /\ tried' = [tried EXCEPT ![w] = {}]
    /\ act' = [op |-> "Rerun", w |-> w]
    /\ UNCHANGED <<final, prot, gen, vouch, failedW, crashes, clock, dev, probed, owner, srcok>>

Next ==
    \/ \E w \in Writers : Query(w) \/ Vouch(w) \/ NothingToSend(w) \/ Rerun(w) \/ Retire(w)
    \/ \E w \in Writers, o \in Objects : ProbeOpen(w, o) \/ ProbeUnlink(w, o) \/ TmpCopy(w, o) \/ Rename(w, o) \/ Protect(w, o) \/ VerifyOne(w, o)
    \/ Crash

Init == /\ final = [o \in Objects |-> "none"] /\ prot = [o \in Objects |-> FALSE] /\ gen = [o \in Objects |-> 0]
        /\ vouch = [o \in Objects |-> 0] /\ tmp = [w \in Writers |-> [o \in Objects |-> "none"]]
        /\ pc = [w \in Writers |-> "query"] /\ todo = [w \in Writers |-> {}] /\ batch = [w \in Writers |-> {}]
        /\ first = [w \in Writers |-> "yes"] /\ probed = [w \in Writers |-> "-"] /\ failedW = {} /\ crashes = 0 /\ clock = 1 /\ dev = {} /\ act = [op |-> "Init"]
        /\ owner = [o \in Objects |-> "-"] /\ tried = [w \in Writers |-> {}] /\ srcok = [w \in Writers |-> TRUE]
Spec == Init /\ [][Next]_vars

(******************************* properties *********************************)
\* ---- C15, one writer: every reachable state - a crash can freeze any of them
C15_NoProtectedMismatch == dev = {} => \A o \in Objects : prot[o] => final[o] \in {"ok", "none"}
C15_NoVouchedMismatch == dev = {} => \A o \in Objects : Vouched(o) => Intact(o)
C15_Closed == dev = {} => \A w \in Writers : Intact(DirOf[w]) => \A f \in Req[w] : Intact(f)
\* a re-run that finishes leaves what an uninterrupted run leaves: everything intact, protected, vouched
AllDone == \A w \in Writers : pc[w] \in {"done", "failed"}
\* (a hash-state row is only a cache: an object that is intact and protected but not vouched for is fine)
Complete == \A o \in Objects : Intact(o) /\ prot[o]
C15_RerunConverges == (AllDone /\ dev = {}) => Complete
\* the rule that (re)adding must follow; F7 (open): add()-style only asks whether the final path exists, so the
\* empty file a crash inside the reflink probe left there is kept, protected and vouched for
F7Condition == \E w \in Writers : Style[w] = "add" /\ \E o \in Req[w] : final[o] = "empty"
\* ---- C16, several writers: at the end
C16_AllSucceed == (AllDone /\ dev = {}) => failedW = {}
C16_Intact == (AllDone /\ dev = {} /\ failedW = {}) => Complete
\* behaviour generation: the crash states one writer can be frozen in, projected the way the auditor sees them
PrintCrash == act.op = "Crash" => PrintT(<<"CRASH", [o \in Objects |-> <<final[o], prot[o], Vouched(o)>>]>>)
=============================================================================
