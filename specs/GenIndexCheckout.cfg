INIT GenInit
NEXT GenNext
CONSTANTS
    Paths <- PathsDef
    Parent <- ParentDef
    Depth <- DepthDef
    Contents = {"c1", "c2"}
    Root = ""
    KnownDev = {}
