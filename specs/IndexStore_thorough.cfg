\* every history of <= 6 operations (set/del/iterate with lazy loading/commit/reopen/attach/export)
SPECIFICATION Spec
CONSTANTS
    Keys <- KeysDef
    LazyDirs <- LazyDef
    Kids <- KidsDef
    Entries <- EntriesDef
    KidEntry <- KidDef
    MaxSteps = 6
INVARIANT Inv_Reopen
INVARIANT Inv_Coherent
