---------------------------- MODULE IndexCheckout ----------------------------
(***************************************************************************)
(* Index-level checkout (index/checkout.py: compare, _compare, apply,       *)
(* _delete_files, _delete_dirs, _create_dirs, _create_files, _chmod_files).  *)
(* Property C09 (and the index route of C02).                               *)
(*                                                                         *)
(* A tree assigns every path of a small nested universe one of              *)
(*   Nope            nothing there                                          *)
(*   Dir             a directory                                            *)
(*   File(c, x)      a file with content c, executable bit x                *)
(* (well-formed: something below a path implies the path is a directory).   *)
(* ws = what is on disk; tgt = the target index (built and hashed from such  *)
(* a tree); avail = the contents the target's storage can supply.           *)
(*                                                                         *)
(* The target index is given either entry by entry (built and hashed) or as  *)
(* ONE unloaded entry pointing at a directory object that compare() expands   *)
(* from object storage - then tgt is what a directory object can say: files,  *)
(* the directories they need, no executable bit.                             *)
(*                                                                         *)
(* compare() yields, in the breadth-first order of the index diff, the lists *)
(* files_delete, dirs_delete, dirs_create, files_create, files_chmod;        *)
(* apply() runs: delete files; rmdir each listed directory (silently failing *)
(* when not empty); make directories; create files (an unavailable source or *)
(* an occupied path goes to the error callback); chmod +x.                   *)
(***************************************************************************)
EXTENDS Naturals, FiniteSets, Sequences, SequencesExt, TLC

CONSTANTS Paths, Parent, Depth, Contents, Root, KnownDev

Nope == [k |-> "-", c |-> "", x |-> FALSE]
Dir == [k |-> "d", c |-> "", x |-> FALSE]
File(c, x) == [k |-> "f", c |-> c, x |-> x]
IsFile(n) == n.k = "f"
IsDir(n) == n.k = "d"
There(n) == n.k # "-"

Children(p) == {q \in Paths : Parent[q] = p}
RECURSIVE Below(_, _)
Below(q, p) == IF q = Root THEN FALSE ELSE (Parent[q] = p \/ Below(Parent[q], p))
WellFormed(t) == \A q \in Paths : (There(t[q]) /\ Parent[q] # Root) => IsDir(t[Parent[q]])
Trees == {t \in [Paths -> {Nope, Dir} \cup {File(c, x) : c \in Contents, x \in BOOLEAN}] : WellFormed(t)}

VARIABLES ws, tgt, avail, del, link, hashed, lists, errs, crash, dev, pc, act
vars == <<ws, tgt, avail, del, link, hashed, lists, errs, crash, dev, pc, act>>

(****************************** compare ************************************)
\* the entry-level classification of the diff with meta_cmp_key = (isdir, isexec)
\* `hsh` = the old index carries hashes (md5() was run on it); a plain build() has none, and then every file that is
\* on both sides counts as modified
Changed(o, n, hsh) == There(o) /\ There(n) /\ (o.k # n.k \/ (IsFile(o) /\ (o.c # n.c \/ ~hsh)))
ExecOnly(o, n, hsh) == IsFile(o) /\ IsFile(n) /\ o.c = n.c /\ hsh /\ o.x # n.x
\* breadth-first order: by depth (the order inside one level is irrelevant to the outcome)
ByDepth(S) == SortSeq(SetToSeq(S), LAMBDA a, b : Depth[a] < Depth[b])
\* F16 (open): a dangling symbolic link in the workspace is an index entry without metadata and hash; where the target
\* has a directory the index diff calls that ADD, so nothing deletes the link and making the directory fails
Ghosts(w, t) == {p \in Paths : IsFile(w[p]) /\ w[p].c = "dangling" /\ IsDir(t[p])}
Compare(w0, t, delete, hsh) ==
    LET w     == [p \in Paths |-> IF p \in Ghosts(w0, t) THEN Nope ELSE w0[p]]
        gone  == {p \in Paths : There(w[p]) /\ ~There(t[p])}
        fresh == {p \in Paths : ~There(w[p]) /\ There(t[p])}
        chg   == {p \in Paths : Changed(w[p], t[p], hsh)}
        delS  == (IF delete THEN gone ELSE {}) \cup chg
        newS  == fresh \cup chg
    IN [files_delete |-> {p \in delS : IsFile(w[p])},
        dirs_delete  |-> ByDepth({p \in delS : IsDir(w[p])}),
        dirs_create  |-> {p \in newS : IsDir(t[p])},
        files_create |-> {p \in newS : IsFile(t[p])},
        files_chmod  |-> {p \in newS : IsFile(t[p]) /\ t[p].x} \cup {p \in Paths : ExecOnly(w[p], t[p], hsh)}]

(******************************** apply ************************************)
Empty(w, d) == \A q \in Children(d) : ~There(w[q])
\* _delete_dirs: rmdir in the given order, failures ignored
RECURSIVE Rmdirs(_, _)
Rmdirs(w, sq) == IF sq = <<>> THEN w
                 ELSE Rmdirs(IF IsDir(w[Head(sq)]) /\ Empty(w, Head(sq)) THEN [w EXCEPT ![Head(sq)] = Nope] ELSE w, Tail(sq))
\* the order apply() uses.  Intended (and the code after the F4 repair): deepest first.
\* F4 (while open): the compare order - parents before children, so a nested directory keeps its parent alive.
RmOrder(sq) == IF "F4" \in KnownDev THEN sq ELSE Reverse(sq)
\* makedirs(exist_ok=True) also creates the missing ancestors
WithDirs(w, ds) == [p \in Paths |-> IF (p \in ds \/ \E d \in ds : Below(d, p)) /\ ~There(w[p]) THEN Dir ELSE w[p]]
\* a file can be created when its source is available, nothing but a file occupies the path and the parent is
\* (or can be made) a directory
ParentOK(w, p) == Parent[p] = Root \/ ~IsFile(w[Parent[p]])
Creatable(w, t, a, p) == t[p].c \in a /\ ~IsDir(w[p]) /\ ParentOK(w, p)
\* F13 (open): with cache type symlink an unavailable source does not make the link fail - a dangling link is
\* created and nothing reaches the error callback
Dangles(w, t, a, lk, p) == lk = "symlink" /\ t[p].c \notin a /\ ~IsDir(w[p]) /\ ParentOK(w, p)
Apply(w, t, a, L, lk) ==
    LET w1 == [p \in Paths |-> IF p \in L.files_delete THEN Nope ELSE w[p]]
        w2 == Rmdirs(w1, RmOrder(L.dirs_delete))
        w3 == WithDirs(w2, L.dirs_create)
        ok == {p \in L.files_create : Creatable(w3, t, a, p)}   \* (a directory at the path is never replaced)
        dg == {p \in L.files_create : Dangles(w3, t, a, lk, p)}
        w4 == WithDirs([p \in Paths |-> IF p \in ok THEN File(t[p].c, FALSE) ELSE IF p \in dg THEN File("dangling", FALSE) ELSE w3[p]],
                       {Parent[p] : p \in {q \in ok \cup dg : Parent[q] # Root}})
        \* named behaviour: chmod stats every listed path; a path that was not created (or dangles) makes apply()
        \* raise FileNotFoundError part-way through the list
        \* named behaviour: linking onto a path occupied by a directory raises FileExistsError, which the transfer
        \* treats as "already there" and skips silently (copying reports it)
        \* (a hard link needs its source first: when the object is unavailable that is what gets reported)
        mute == IF lk \in {"symlink", "hardlink"} THEN {p \in L.files_create : IsDir(w3[p]) /\ (lk = "symlink" \/ t[p].c \in a)} ELSE {}
        bad == {p \in L.files_chmod : ~There(w4[p]) \/ w4[p].c = "dangling"}
        w5 == [p \in Paths |-> IF p \in L.files_chmod /\ IsFile(w4[p]) /\ bad = {} THEN File(w4[p].c, TRUE) ELSE w4[p]]
        \* named behaviour: with update_meta (the default) the created files are stat-ed afterwards, so any entry that
        \* could not be created makes apply() raise FileNotFoundError after the error callback was called
        er == L.files_create \ (ok \cup dg \cup mute)
        ghost == {p \in Ghosts(w, t) : There(w2[p])}
    IN IF ghost # {}
       THEN \* makedirs() raises FileExistsError: apply() stops after the deletions (which directories were made before
            \* that depends on the order of the list and is not modelled)
            [ws |-> w2, errs |-> {}, crash |-> TRUE, dev |-> IF "F16" \in KnownDev THEN {"F16"} ELSE {}]
       ELSE
       [ws |-> w5, errs |-> er, crash |-> bad # {} \/ (\E p \in er : ~There(w4[p])) \/ dg # {},
        dev |-> IF (dg # {} \/ \E p \in mute : t[p].c \notin a) /\ "F13" \in KnownDev THEN {"F13"} ELSE {}]

(******************************* state machine ******************************)
Init == /\ ws \in Trees /\ tgt \in Trees /\ avail \in SUBSET Contents /\ del \in BOOLEAN /\ link \in {"copy", "symlink", "hardlink"} /\ hashed \in BOOLEAN
        /\ lists = [files_delete |-> {}] /\ errs = {} /\ crash = FALSE /\ dev = {} /\ pc = "compare" /\ act = [op |-> "Init"]
DoCompare == /\ pc = "compare" /\ lists' = Compare(ws, tgt, del, hashed) /\ pc' = "apply" /\ act' = [op |-> "Compare"]
             /\ UNCHANGED <<ws, tgt, avail, del, link, hashed, errs, crash, dev>>
DoApply == /\ pc = "apply"
           /\ LET r == Apply(ws, tgt, avail, lists, link) IN ws' = r.ws /\ errs' = r.errs /\ crash' = r.crash /\ dev' = r.dev
           /\ pc' = "again" /\ act' = [op |-> "Apply"] /\ UNCHANGED <<tgt, avail, del, link, hashed, lists>>
\* (the second compare is always made on a hashed index of the workspace)
DoAgain == /\ pc = "again" /\ lists' = Compare(ws, tgt, del, TRUE) /\ pc' = "done" /\ act' = [op |-> "Compare2"]
           /\ UNCHANGED <<ws, tgt, avail, del, link, hashed, errs, crash, dev>>
Next == DoCompare \/ DoApply \/ DoAgain
Spec == Init /\ [][Next]_vars

(******************************* C09 predicates *****************************)
Available(t, a) == \A p \in Paths : IsFile(t[p]) => t[p].c \in a
\* w0 before, w after apply, L2 = the lists of the second compare, E = paths passed to the error callback
C09_Files(t, w) == \A p \in Paths :
    /\ IsFile(t[p]) => (IsFile(w[p]) /\ w[p].c = t[p].c /\ (t[p].x => w[p].x))
    /\ IsFile(w[p]) => IsFile(t[p])
C09_Dirs(t, w) == \A p \in Paths : IsDir(t[p]) => IsDir(w[p])
C09_Settled(L2) == L2.files_create = {} /\ L2.dirs_create = {} /\ L2.files_delete = {} /\ L2.dirs_delete = <<>>
\* without deletion nothing outside the target is removed
\* (also what lies below a directory that the target wants as a file: the directory cannot be removed while it has
\* content, the entry goes to the error callback, the content stays)
C09_Keeps(w0, t, w) == \A p \in Paths : (There(w0[p]) /\ ~There(t[p])) => w[p] = w0[p]
\* an entry whose source is unavailable is reported, not silently skipped
C09_Reported(t, a, w, E) == \A p \in Paths : (IsFile(t[p]) /\ t[p].c \notin a /\ ~(IsFile(w[p]) /\ w[p].c = t[p].c)) => p \in E

Inv_Converges == (pc \in {"again", "done"} /\ del /\ Available(tgt, avail)) => (C09_Files(tgt, ws) /\ C09_Dirs(tgt, ws))
Inv_Settled == (pc = "done" /\ del /\ Available(tgt, avail)) => C09_Settled(lists)
Inv_Reported == (pc \in {"again", "done"} /\ dev = {}) => C09_Reported(tgt, avail, ws, errs)
=============================================================================
