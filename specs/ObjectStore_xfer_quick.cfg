\* C04 / C11 / C12-index / C01: cache filled by adds, then transfers cache -> remote with
\* every failing subset (<= 2), every claim order, abort anywhere, retry, with and without index
SPECIFICATION Spec
CONSTANTS
    Files <- FilesDef
    Dirs <- DirsDef
    Lists <- ListsDef
    Stores <- StoresDef
    Class <- ClassDef
    IdxStore = "remote"
    KnownDev = {}
    Ops = {"transfer", "abort"}
    Requests <- ReqClosed
    MaxFaults = 2
    MaxXfers = 2
    XferPairs <- PushPair
    AddTargets = {}
    Modes <- ShallowIdxModes
    InitStores <- InitPush
VIEW view
CONSTRAINT DepthOK
INVARIANT TypeOK
INVARIANT C04_Closed
INVARIANT Inv_C04_Withheld
INVARIANT Inv_C04_Complete
INVARIANT Inv_C11
INVARIANT Inv_C12_Index
INVARIANT C01_Addressed
INVARIANT C01_Protected
