---------------------------- MODULE GenStorageMap ----------------------------
EXTENDS MC_StorageMap, Json, IOUtils
Out(_u) == [configs |-> SaneConfigs]
ASSUME JsonSerialize(IOEnv.GEN_OUT, Out(0))
GenInit == smap = <<>> /\ order = <<>> /\ remote = <<>> /\ cache = <<>> /\ last = <<>> /\ pc = "gen" /\ dev = {} /\ act = <<>>
GenNext == UNCHANGED vars
=============================================================================
