INIT GenInit
NEXT GenNext
CONSTANTS
    Keys <- KeysG
    Parent <- ParentG
    FileMetas = {"f1", "f2", "f3", "f4"}
    FileHashes = {"h1", "h2"}
    Root = ""
