INIT GenInit
NEXT GenNext
CONSTANTS
    Keys <- KeysG
    Parent <- ParentG
    FileMetas = {"f1", "f2"}
    FileHashes = {"h1", "h2"}
    Root = ""
