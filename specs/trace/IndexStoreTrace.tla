-------------------------- MODULE IndexStoreTrace --------------------------
(* Traces of a SQLite-backed DataIndex: {traces: [[{act, live, readback}]]}.   *)
(* live = the entries the session shows after the step (read through the trie,  *)
(* without triggering lazy loading); readback = listing read back from the file *)
(* form written by an Export step.                                              *)
EXTENDS MC_IndexStore, Json, IOUtils, Sequences, SequencesExt
Traces == JsonDeserialize(IOEnv.TRACE_FILE)
VARIABLES tid, l
allvars == <<vars, tid, l>>
Ev == Traces[tid][l]
Have == l <= Len(Traces[tid])
EntOf(x) == [meta |-> x.meta, hash |-> x.hash, loaded |-> x.loaded]
ListOf(r) == [k \in Keys |-> IF k \in DOMAIN r THEN EntOf(r[k]) ELSE Nil]

TraceInit == tid \in 1..Len(Traces) /\ l = 1 /\ Init
Step(a) ==
    \/ a.op = "Set" /\ Set(a.k, EntOf(a.e))
    \/ a.op = "SetInPlace" /\ SetInPlace(a.k, EntOf(a.e))
    \/ a.op = "Del" /\ Del(a.k)
    \/ a.op = "Elsewhere" /\ Elsewhere(a.k, EntOf(a.e))
    \/ a.op = "Iter" /\ Iter
    \/ a.op = "Commit" /\ Commit
    \/ a.op = "Reopen" /\ Reopen
    \/ a.op = "Attach" /\ Attach
    \/ a.op = "Export" /\ Export(a.kind)
\* the step counter of the design spec is irrelevant for traces (MaxSteps is set high)
Match == Have /\ Step(Ev.act) /\ ProjL(live') = ProjL(ListOf(Ev.live)) /\ l' = l + 1 /\ UNCHANGED tid
Say(tag, clause) == PrintT(<<tag, "C20", clause, tid, l, {}>>)
Resync == /\ live' = ListOf(Ev.live) /\ rows' = ListOf(Ev.live)
          /\ disk' = IF Ev.act.op \in {"Commit", "Reopen"} THEN ListOf(Ev.live) ELSE disk
          /\ committedView' = IF Ev.act.op = "Commit" THEN ListOf(Ev.live) ELSE committedView
          /\ attached' = IF Ev.act.op = "Reopen" THEN FALSE ELSE IF Ev.act.op = "Attach" THEN TRUE ELSE attached
          /\ act' = [op |-> Ev.act.op] /\ steps' = steps + 1 /\ UNCHANGED exported
          /\ dirty' = (Ev.act.op \in {"Set", "SetInPlace", "Del"})
Fail == Have /\ ~ENABLED Match /\ Resync /\ l' = l + 1 /\ UNCHANGED tid /\ Say("DIVERGENCE", Ev.act.op)
Judge ==
    /\ (Ev.act.op = "Reopen" => (C20_Reopen(committedView, ListOf(Ev.live)) \/ Say("VERDICT", "ReopenLosesOrChanges")))
    /\ (Ev.act.op = "Export" =>
          (C20_Export(ProjL(ListOf(Ev.live)), ProjL(ListOf(Ev.readback))) \/ Say("VERDICT", "FileFormRoundTrip:" \o Ev.act.kind)))
    \* within a session a read returns what was last set for that key
    /\ (Ev.act.op \in {"Set", "SetInPlace"} => (Proj(ListOf(Ev.live)[Ev.act.k]) = Proj(EntOf(Ev.act.e)) \/ Say("VERDICT", "ReadAfterSet")))
TraceNext == (Match \/ Fail) /\ Judge
TraceSpec == TraceInit /\ [][TraceNext]_allvars
=============================================================================
