-------------------------- MODULE StateCacheTrace --------------------------
(* [{events: [{act: {...}, ans: {p: c}, pads_ok}]}]; ans = hashes returned (as content ids) by a Query / Carry.  *)
EXTENDS MC_StateCache, Json, IOUtils, Sequences, SequencesExt
Traces == JsonDeserialize(IOEnv.TRACE_FILE)
VARIABLES tid, l
allvars == <<vars, tid, l>>
Ev == Traces[tid][l]
Have == l <= Len(Traces[tid])
TraceInit == tid \in 1..Len(Traces) /\ l = 1 /\ Init
AnsOf(e) == [p \in DOMAIN e.ans |-> e.ans[p]]
Step(a) ==
    \/ a.op = "Create" /\ Create(a.p, a.c)
    \/ a.op = "StoreCreate" /\ StoreCreate(a.p, a.c, a.salg)
    \/ a.op = "Delete" /\ Delete(a.p)
    \/ a.op = "Mutate" /\ Mutate(a.p, a.c, a.ino, a.mt)
    \/ a.op = "Query" /\ Query(ToSet(a.P), a.alg, a.api)
    \/ a.op = "QueryRace" /\ QueryRace(a.p, a.alg, a.api, a.c, a.ino, a.mt, a.when)
    \/ a.op = "Inject" /\ Inject(a.p, a.kind)
    \/ a.op = "ApplyOver" /\ ApplyOver(a.p, a.c, a.lt, a.ino, a.mt)
    \/ a.op = "Snapshot" /\ Snapshot
    \/ a.op = "Carry" /\ Carry
Match == /\ Have /\ Step(Ev.act)
         /\ (Ev.act.op \in {"Query", "Carry", "QueryRace"} => last'.ans = AnsOf(Ev))
         /\ l' = l + 1 /\ UNCHANGED tid
Say(tag, clause) == PrintT(<<tag, "C13", clause, tid, l, {}>>)
\* a diverging step: keep the files (they are driven by the harness), forget the cache rows of the paths involved
Resync ==
    /\ IF Ev.act.op = "QueryRace"
       THEN LET a == Ev.act
                f == [ino |-> IF a.ino THEN clock ELSE file[a.p].ino, mt |-> IF a.mt THEN clock ELSE file[a.p].mt, c |-> a.c]
            IN file' = [file EXCEPT ![a.p] = f] /\ used' = [used EXCEPT ![a.p] = @ \cup {Tok(f)}] /\ clock' = clock + 1
       ELSE UNCHANGED <<file, used, clock>>
    /\ UNCHANGED carried
    /\ row' = IF Ev.act.op = "QueryRace" THEN [row EXCEPT ![Ev.act.p] = None] ELSE
              IF Ev.act.op = "Query" THEN [p \in Paths |-> IF p \in ToSet(Ev.act.P) THEN None ELSE row[p]] ELSE row
    /\ last' = [op |-> Ev.act.op, ans |-> AnsOf(Ev)] /\ act' = [op |-> Ev.act.op] /\ steps' = steps + 1
Fail == Have /\ ~ENABLED Match /\ Resync /\ l' = l + 1 /\ UNCHANGED tid /\ Say("DIVERGENCE", Ev.act.op)
Judge ==
    /\ (Ev.act.op = "Query" => (C13_NeverStale(file', AnsOf(Ev)) \/ Say("VERDICT", "StaleHashFromCache:" \o Ev.act.api)))
    /\ (Ev.act.op = "Query" => (Ev.pads_ok \/ Say("VERDICT", "BatchLookupDisagrees")))
    \* the in-flight query of a race answers with the hash of what it read: the bytes from before or after the write
    /\ (Ev.act.op = "QueryRace" => (AnsOf(Ev)[Ev.act.p] \in {file[Ev.act.p].c, file'[Ev.act.p].c} \/ Say("VERDICT", "StaleHashFromCache:" \o Ev.act.api)))
    /\ (Ev.act.op = "Carry" => (C13_NeverStale(file', AnsOf(Ev)) \/ Say("VERDICT", "StaleHashCarriedOver")))
TraceNext == (Match \/ Fail) /\ Judge
TraceSpec == TraceInit /\ [][TraceNext]_allvars
=============================================================================
