-------------------------- MODULE StateCacheTrace --------------------------
(* [{events: [{act: {...}, ans: {p: c}, pads_ok}]}]; ans = hashes returned (as content ids) by a Query / Carry.  *)
EXTENDS MC_StateCache, Json, IOUtils, Sequences, SequencesExt
Traces == JsonDeserialize(IOEnv.TRACE_FILE)
VARIABLES tid, l
allvars == <<vars, tid, l>>
Ev == Traces[tid][l]
Have == l <= Len(Traces[tid])
TraceInit == tid \in 1..Len(Traces) /\ l = 1 /\ Init
AnsOf(e) == [p \in DOMAIN e.ans |-> e.ans[p]]
Step(a) ==
    \/ a.op = "Create" /\ Create(a.p, a.c)
    \/ a.op = "Delete" /\ Delete(a.p)
    \/ a.op = "Mutate" /\ Mutate(a.p, a.c, a.ino, a.mt)
    \/ a.op = "Query" /\ Query(ToSet(a.P), a.alg, a.api)
    \/ a.op = "Inject" /\ Inject(a.p, a.kind)
    \/ a.op = "Snapshot" /\ Snapshot
    \/ a.op = "Carry" /\ Carry
Match == /\ Have /\ Step(Ev.act)
         /\ (Ev.act.op \in {"Query", "Carry"} => last'.ans = AnsOf(Ev))
         /\ l' = l + 1 /\ UNCHANGED tid
Say(tag, clause) == PrintT(<<tag, "C13", clause, tid, l, {}>>)
\* a diverging step: keep the files (they are driven by the harness), forget the cache rows of the paths involved
Resync ==
    /\ UNCHANGED <<file, used, clock, carried>>
    /\ row' = IF Ev.act.op = "Query" THEN [p \in Paths |-> IF p \in ToSet(Ev.act.P) THEN None ELSE row[p]] ELSE row
    /\ last' = [op |-> Ev.act.op, ans |-> AnsOf(Ev)] /\ act' = [op |-> Ev.act.op] /\ steps' = steps + 1
Fail == Have /\ ~ENABLED Match /\ Resync /\ l' = l + 1 /\ UNCHANGED tid /\ Say("DIVERGENCE", Ev.act.op)
Judge ==
    /\ (Ev.act.op = "Query" => (C13_NeverStale(file', AnsOf(Ev)) \/ Say("VERDICT", "StaleHashFromCache:" \o Ev.act.api)))
    /\ (Ev.act.op = "Query" => (Ev.pads_ok \/ Say("VERDICT", "BatchLookupDisagrees")))
    /\ (Ev.act.op = "Carry" => (C13_NeverStale(file', AnsOf(Ev)) \/ Say("VERDICT", "StaleHashCarriedOver")))
TraceNext == (Match \/ Fail) /\ Judge
TraceSpec == TraceInit /\ [][TraceNext]_allvars
=============================================================================
