SPECIFICATION TraceSpec
CONSTANTS
    Keys <- KeysTr
    Contents <- ContentsTr
    Root = "."
    LinkType <- TrLink
    KnownDev = {}
    MaxCheckouts = 100000
    InitWs = {}
    InitCache = {}
    Prompts = {}
    Twins <- TwinsDef
