--------------------------- MODULE CheckoutTrace ---------------------------
(* {link, traces: [{init: {ws, cache, dirobjs}, events: [{act, ws, cache, flags}]}]}                         *)
(*  ws = {kind, files: {key: {c, lt}}}; cache = {content: "ok"|"bad"|"none"}; dirobjs = [listing {key: c}] *)
(*  act: Begin {t, force, relink, prompt} | Remove {k} | Create {k} | End {res}                            *)
(*  flags (End only): same_inodes (nothing in the workspace changed inode/mtime during this checkout),      *)
(*                    rec_ok (the saved link record matches the workspace), copies_writable                 *)
EXTENDS MC_Checkout, Json, IOUtils, Sequences, SequencesExt
Doc == JsonDeserialize(IOEnv.TRACE_FILE)
TrLink == Doc.link
Traces == Doc.traces
VARIABLES tid, l
allvars == <<vars, tid, l>>
Ev == Traces[tid].events[l]
Have == l <= Len(Traces[tid].events)
FileOf(r, k) == IF k \in DOMAIN r THEN F(r[k].c, r[k].lt) ELSE NoFile
WsOf(w) == [kind |-> w.kind, files |-> [k \in AllKeys |-> FileOf(w.files, k)]]
CacheOf(c) == [x \in Contents |-> IF x \in DOMAIN c THEN c[x] ELSE "none"]
ListOf(r) == [k \in DOMAIN r |-> r[k]]
TargetOf(t) == IF t.kind = "tree" THEN [kind |-> "tree", listing |-> ListOf(t.listing)]
               ELSE IF t.kind = "file" THEN [kind |-> "file", c |-> t.c] ELSE [kind |-> "none"]
ResOf(r) == IF r.kind = "CheckoutError" THEN [kind |-> "CheckoutError", keys |-> ToSet(r.keys)]
            ELSE IF r.kind = "PromptError" THEN [kind |-> "PromptError", key |-> r.key]
            ELSE IF r.kind = "ok" THEN [kind |-> "ok", ret |-> r.ret]
            ELSE IF r.kind = "exc" THEN [kind |-> "exc", type |-> r.type] ELSE [kind |-> r.kind]
TraceInit ==
    /\ tid \in 1..Len(Traces) /\ l = 1
    /\ ws = WsOf(Traces[tid].init.ws) /\ cache = CacheOf(Traces[tid].init.cache)
    /\ dirobjs = {ListOf(Traces[tid].init.dirobjs[x]) : x \in DOMAIN Traces[tid].init.dirobjs}
    /\ pc = "idle" /\ args = [t |-> [kind |-> "none"]] /\ todoDel = {} /\ todoNew = {} /\ needRm = {} /\ pend = "-"
    /\ failed = {} /\ res = [kind |-> "none"] /\ touched = {} /\ act = [op |-> "Init"] /\ dev = {} /\ n = 0
Step(a) ==
    \/ a.op = "Begin" /\ Begin(TargetOf(a.t), a.force, a.relink, a.prompt, a.state, a.sp)
    \/ a.op = "Remove" /\ (RemoveDel(a.k) \/ RemoveNew(a.k))
    \/ a.op = "Create" /\ (Create(a.k) \/ CreateDangling(a.k))
    \/ a.op = "Evict" /\ Evict(a.c)
    \/ a.op = "Corrupt" /\ Corrupt(a.c)
    \/ a.op = "Arrive" /\ Arrive(a.c)
    \/ a.op = "Replace" /\ Replace(a.k, a.c)
    \/ a.op = "End" /\ (End \/ Crash \/ EndDoomed \/ \E k \in AllKeys : PromptDel(k) \/ PromptNew(k)) /\ res' = ResOf(a.res)
Match == Have /\ Step(Ev.act) /\ ws' = WsOf(Ev.ws) /\ cache' = CacheOf(Ev.cache) /\ l' = l + 1 /\ UNCHANGED tid
Say(tag, prop, clause) == PrintT(<<tag, prop, clause, tid, l, dev'>>)
Resync ==
    /\ ws' = WsOf(Ev.ws) /\ cache' = CacheOf(Ev.cache) /\ act' = [op |-> Ev.act.op]
    /\ IF Ev.act.op = "Begin"
       THEN /\ args' = [t |-> TargetOf(Ev.act.t), force |-> Ev.act.force, relink |-> Ev.act.relink, prompt |-> Ev.act.prompt,
                        diff |-> TRUE, state |-> Ev.act.state, pcache |-> cache, pre |-> ws, mkroot |-> FALSE]
            /\ pc' = "run" /\ res' = [kind |-> "running"] /\ n' = n + 1 /\ touched' = {}
            /\ UNCHANGED <<todoDel, todoNew, needRm, pend, failed>>
       ELSE /\ pc' = IF Ev.act.op = "End" THEN "idle" ELSE pc
            /\ res' = IF Ev.act.op = "End" THEN ResOf(Ev.act.res) ELSE res
            /\ touched' = IF Ev.act.op \in {"Remove", "Create"} THEN touched \cup {Ev.act.k} ELSE touched
            /\ todoDel' = {} /\ todoNew' = {} /\ needRm' = {} /\ pend' = "-"
            /\ UNCHANGED <<args, failed, n>>
    /\ UNCHANGED <<dirobjs, dev>>
\* a checkout whose path is itself a dangling symbolic link (its object left the cache) is outside the model: the link
\* holds no data; the steps are still judged, a mismatch is not counted as a divergence
Unmodelled == ws.kind = "file" /\ ws.files[Root].c = "dangling"
Fail == Have /\ ~ENABLED Match /\ Resync /\ l' = l + 1 /\ UNCHANGED tid /\ (Unmodelled \/ Say("DIVERGENCE", "-", Ev.act.op))

UnforcedA(a) == ~a.force /\ a.prompt # "accepts"
Judge ==
    LET op == Ev.act.op
        W == ws'
        ended == op = "End"
        R == res'
    IN
    \* C05: a step of an unforced checkout only takes away / overwrites what the cache can give back
    /\ ((op \in {"Remove", "Create", "End"} /\ UnforcedA(args') /\ dev' = {}) =>
            (C05_StepSafe(ws, W, cache) \/ Say("VERDICT", "C05", "UnrecoverableDataDestroyed")))
    /\ ((ended /\ R.kind = "PromptError" /\ R.key # Root) =>
            (W.files[R.key] = args'.pre.files[R.key] \/ Say("VERDICT", "C05", "RefusedFileTouched")))
    \* C10 (and C07): the cache is never modified by a checkout, apart from dropping corrupt objects at Begin
    /\ ((op \notin {"Evict", "Corrupt"} => \A c \in Contents : cache[c] = "ok" => cache'[c] = "ok") \/ Say("VERDICT", "C10", "CacheObjectChanged"))
    \* C07: what a checkout puts into the workspace is the target's bytes (or, with symbolic links, a dangling
    \* link when the object is gone) - never the bytes of a corrupt object
    /\ ((op = "Create" => W.files[Ev.act.k].c \in {NewOid(args.t, Ev.act.k)[2], "dangling"})
            \/ Say("VERDICT", "C07", "WrongBytesMaterialised"))
    /\ ((op = "Create" => ~(args.pcache[NewOid(args.t, Ev.act.k)[2]] = "bad" /\ W.files[Ev.act.k].c # "dangling"))
            \/ Say("VERDICT", "C07", "CorruptObjectMaterialised"))
    /\ ((ended /\ R.kind = "ok" /\ TargetCached(cache', args'.t) /\ args'.force /\ Agrees(args'.pre, args'.t)) =>
            (Converged(W, args'.t) \/ Say("VERDICT", "C10", "ForcedCheckoutDidNotConverge")))
    /\ ((ended /\ R.kind = "ok" /\ args'.relink /\ TargetCached(cache', args'.t) /\ Agrees(args'.pre, args'.t)) =>
            ((\A k \in AllKeys : W.files[k] # NoFile => W.files[k].lt = LinkType)
                \/ Say("VERDICT", "C10", "RelinkLeftWrongLinkType")))
    /\ ((ended /\ R.kind = "ok" /\ args'.relink /\ LinkType = "copy" /\ TargetCached(cache', args'.t)) =>
            (Ev.flags.copies_writable \/ Say("VERDICT", "C10", "CopyNotIndependentOrWritable")))
    \* the repeat of a successful checkout finds nothing to do and touches nothing
    /\ ((ended /\ Ev.flags.repeat /\ ~args'.relink /\ R.kind = "ok" /\ TargetCached(cache', args'.t) /\ Agrees(args'.pre, args'.t)) =>
            ((R.ret = "none" /\ Ev.flags.same_inodes) \/ Say("VERDICT", "C10", "SecondCheckoutNotANoOp")))
    /\ ((ended /\ R.kind = "ok" /\ R.ret # "none" /\ args'.t.kind # "none") => (Ev.flags.rec_ok \/ Say("VERDICT", "C10", "LinkRecordMismatch")))
TraceNext == (Match \/ Fail) /\ Judge
TraceSpec == TraceInit /\ [][TraceNext]_allvars
=============================================================================
