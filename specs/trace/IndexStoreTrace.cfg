SPECIFICATION TraceSpec
CONSTANTS
    Keys <- KeysDef
    LazyDirs <- LazyDef
    Kids <- KidsDef
    Entries <- EntriesDef
    KidEntry <- KidDef
    MaxSteps = 1000
