--------------------------- MODULE LazyIndexTrace ---------------------------
(* [[{act: {op, args: [...]}, lazy, explicit, again, loaded: [dirs], content_ok}]]                          *)
(* lazy / explicit / again = what the lazy index, the explicit index and the lazy index asked a second time  *)
(* answered (JSON values compared for equality); loaded = the lazy directories expanded after the call;     *)
(* reloads = directory objects read from storage by the repeated call.                                      *)
EXTENDS MC_LazyIndex, Json, IOUtils, SequencesExt
Traces == JsonDeserialize(IOEnv.TRACE_FILE)
VARIABLES tid, l
allvars == <<vars, tid, l>>
Ev == Traces[tid][l]
Have == l <= Len(Traces[tid])
TraceInit == tid \in 1..Len(Traces) /\ l = 1 /\ Init
A(n) == Ev.act.args[n]
Step ==
    LET op == Ev.act.op IN
    \/ op = "Get" /\ Get(A(1))
    \/ op = "Info" /\ Info(A(1))
    \/ op = "Iter" /\ Iter(A(1), A(2))
    \/ op = "Ls" /\ Ls(A(1))
    \/ op = "ViewIter" /\ ViewIter(A(1))
    \/ op = "ViewLs" /\ ViewLs(A(1), A(2))
    \/ op = "FsLs" /\ FsLs(A(1))
    \/ op = "FsInfo" /\ FsInfo(A(1))
    \/ op = "FsCat" /\ FsCat(A(1))
    \/ op = "FsFind" /\ FsFind(A(1))
    \/ op = "HashDiff" /\ HashDiff
    \/ op = "HashDiffChanged" /\ HashDiffChanged
Match == Have /\ Step /\ loaded' = ToSet(Ev.loaded) /\ l' = l + 1 /\ UNCHANGED tid
Say(tag, clause) == PrintT(<<tag, "C17", clause, tid, l, {}>>)
Fail == /\ Have /\ ~ENABLED Match
        /\ loaded' = ToSet(Ev.loaded) /\ last' = [kind |-> "none"] /\ act' = [op |-> Ev.act.op] /\ steps' = steps + 1
        /\ l' = l + 1 /\ UNCHANGED tid /\ Say("DIVERGENCE", Ev.act.op)
KeysOf(x) == IF "keys" \in DOMAIN x THEN ToSet(x.keys) ELSE {"!exc"}
Judge ==
    LET op == Ev.act.op IN
    /\ (C17_Transparent(Ev.lazy, Ev.explicit) \/ Say("VERDICT", "NotTransparent:" \o op))
    /\ (C17_Idempotent(Ev.lazy, Ev.again) \/ Say("VERDICT", "LoadingNotIdempotent:" \o op))
    \* ... and a directory that was expanded stays expanded: the repeated call reads no directory object from storage
    /\ (Ev.reloads = 0 \/ Say("VERDICT", "LoadingNotIdempotent:reloaded-from-storage"))
    /\ (op = "ViewIter" => (C17_ViewExact(A(1), KeysOf(Ev.lazy)) \/ Say("VERDICT", "ViewNotExact")))
    /\ (op = "ViewLs" => (KeysOf(Ev.lazy) = RefViewLs(A(1), A(2)) \/ Say("VERDICT", "ViewLsNotExact")))
    /\ (op = "FsCat" => (Ev.content_ok \/ Say("VERDICT", "AdaptorBytesDifferFromStorage")))
    /\ (op \in {"Ls", "FsLs"} => (KeysOf(Ev.lazy) = RefLs(A(1)) \/ Say("VERDICT", "ListingWrong:" \o op)))
    /\ (op = "Iter" => (KeysOf(Ev.lazy) = (IF A(2) THEN RefIterShallow(A(1)) ELSE RefIter(A(1))) \/ Say("VERDICT", "IterationWrong")))
    /\ (op = "HashDiffChanged" => (KeysOf(Ev.lazy) = Changed \/ Say("VERDICT", "HashDiffWrong")))
    /\ (loaded \subseteq ToSet(Ev.loaded) \/ Say("VERDICT", "LoadedShrank"))
TraceNext == (Match \/ Fail) /\ Judge
TraceSpec == TraceInit /\ [][TraceNext]_allvars
=============================================================================
