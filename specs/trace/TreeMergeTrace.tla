-------------------------- MODULE TreeMergeTrace --------------------------
(* Validates observed calls of tree._merge / tree.merge against TreeMerge.  *)
(* One JSON document: array of records                                      *)
(*   {a, o, t : {key: val}, calls: [{pol: [..], fwd: OUT, rev: OUT}]}        *)
(*   OUT = {kind: "merged", m: {key: val}, canon: "n/a"|"yes"|"no"}          *)
(*       | {kind: "MergeError"} | {kind: "exc", type: "..."}                 *)
(* fwd = _merge(a, o, t, pol), rev = _merge(a, t, o, pol).                   *)
EXTENDS TreeMerge, Json, IOUtils, Sequences, SequencesExt

Recs == JsonDeserialize(IOEnv.TRACE_FILE)

VARIABLES i, j
tvars == <<vars, i, j>>

Lst(r) == [k \in Keys |-> IF k \in DOMAIN r THEN r[k] ELSE Absent]
ObsOut(x) == IF x.kind = "merged" THEN Merged(Lst(x.m))
             ELSE IF x.kind = "exc" THEN Exc(x.type) ELSE MergeErr
CallRec == Recs[i].calls[j]

TraceInit ==
    /\ i \in 1..Len(Recs)
    /\ j \in 1..Len(Recs[i].calls)
    /\ a = Lst(Recs[i].a) /\ o = Lst(Recs[i].o) /\ t = Lst(Recs[i].t)
    /\ policy = ToSet(Recs[i].calls[j].pol)
    /\ pc = "call" /\ out = [kind |-> "none"] /\ dev = {}

TraceNext == Call /\ UNCHANGED <<i, j>>
TraceSpec == TraceInit /\ [][TraceNext]_tvars

Say(tag, clause, d) == PrintT(<<tag, "C19", clause, i, j, d>>)

\* total judge: never false, prints one line per falsified clause
Judge ==
    pc = "done" =>
      LET f == ObsOut(CallRec.fwd)
          r == ObsOut(CallRec.rev)
          d == IF f = out THEN dev ELSE {}
      IN /\ (f = out \/ Say("DIVERGENCE", "fwd", {}))
         /\ (r = CodeMerge(a, t, o, policy).out \/ Say("DIVERGENCE", "rev", {}))
         /\ (C19_ErrorKind(f) \/ Say("VERDICT", "ErrorKind", d))
         /\ (C19_Exact(a, o, t, f) \/ Say("VERDICT", "Exact", d))
         /\ (C19_Default(a, o, t, policy, f) \/ Say("VERDICT", "Default", d))
         /\ (C19_Symmetric(f, r) \/ Say("VERDICT", "Symmetric", d))
         /\ ((f.kind = "merged" /\ CallRec.fwd.canon = "no") => Say("VERDICT", "Canonical", d))
=============================================================================
