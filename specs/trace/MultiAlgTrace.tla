---------------------------- MODULE MultiAlgTrace ----------------------------
(* [{init: {p: c}, events: [{act, store: {s: [[name, c]..]}, prot: {s: [name..]}, dirs_ok, aliens}]}]          *)
(* name = "m:<c>" / "d:<c>" when the file name is the md5 / md5-dos2unix digest of content c, "?..." otherwise *)
EXTENDS MC_MultiAlg, Json, IOUtils, Sequences, SequencesExt
Traces == JsonDeserialize(IOEnv.TRACE_FILE)
VARIABLES tid, l
allvars == <<vars, tid, l>>
Ev == Traces[tid].events[l]
Have == l <= Len(Traces[tid].events)
PairsOf(sq) == {<<sq[x][1], sq[x][2]>> : x \in DOMAIN sq}
ObsStore(e) == [s \in Stores |-> IF s \in DOMAIN e.store THEN PairsOf(e.store[s]) ELSE {}]
ObsProt(e) == [s \in Stores |-> IF s \in DOMAIN e.prot THEN ToSet(e.prot[s]) ELSE {}]
TraceInit == /\ tid \in 1..Len(Traces) /\ l = 1
             /\ ws = [p \in Paths |-> Traces[tid].init[p]] /\ store = [s \in Stores |-> {}] /\ prot = [s \in Stores |-> {}]
             /\ row = [p \in Paths |-> NoRow] /\ saved = [s \in Stores |-> NoSaved] /\ act = [op |-> "Init"] /\ steps = 0
Step(a) == \/ a.op = "Edit" /\ Edit(a.p, a.c, a.how)
           \/ a.op = "Add" /\ Add(a.s, a.how)
           \/ a.op = "Migrate" /\ Migrate(a.s, a.t)
           \/ a.op = "Resave" /\ Resave(a.s, a.t)
Match == Have /\ Step(Ev.act) /\ store' = ObsStore(Ev) /\ prot' = ObsProt(Ev) /\ l' = l + 1 /\ UNCHANGED tid
Say(tag, clause) == PrintT(<<tag, "C01", clause, tid, l, {}>>)
Fail == /\ Have /\ ~ENABLED Match
        /\ store' = ObsStore(Ev) /\ prot' = ObsProt(Ev) /\ act' = [op |-> Ev.act.op] /\ steps' = steps + 1
        /\ ws' = IF Ev.act.op = "Edit" THEN [ws EXCEPT ![Ev.act.p] = Ev.act.c] ELSE ws
        /\ row' = [p \in Paths |-> NoRow] /\ saved' = [s \in Stores |-> NoSaved]
        /\ l' = l + 1 /\ UNCHANGED tid /\ Say("DIVERGENCE", Ev.act.op)
Judge == /\ ((\A s \in Stores : C01_Addressed(s, store'[s])) \/ Say("VERDICT", "ContentFiledUnderWrongName"))
         /\ ((\A s \in LocalStores : C01_Protected(store'[s], prot'[s])) \/ Say("VERDICT", "LocalObjectNotReadOnly"))
         /\ (Ev.dirs_ok \/ Say("VERDICT", "DirectoryObjectNameMismatch"))
         /\ (Ev.aliens = <<>> \/ Say("VERDICT", "UnknownContentInStore"))
TraceNext == (Match \/ Fail) /\ Judge
TraceSpec == TraceInit /\ [][TraceNext]_allvars
=============================================================================
