SPECIFICATION TraceSpec
CONSTANTS
    Keys = {"k1", "k2", "k3"}
    Vals = {"v1", "v2", "v3"}
    KnownDev = {}
INVARIANT Judge
