SPECIFICATION TraceSpec
CONSTANTS
    Stores <- StoresDef
    LocalStores <- LocalDef
    AlgOf <- AlgDef
    Contents <- ContentsDef
    Dig <- DigDef
    Paths <- PathsDef
    OnePath <- OneDef
    MaxSteps = 100000
