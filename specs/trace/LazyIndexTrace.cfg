SPECIFICATION TraceSpec
CONSTANTS
    Keys <- KeysDef
    Parent <- ParentDef
    Root = ""
    IsDirKey <- IsDirDef
    LazyDirs <- LazyDef
    Filters <- FiltersDef
    FilterKeys <- FilterKeysDef
    MaxSteps = 100000
