SPECIFICATION TraceSpec
CONSTANTS
    Keys <- KeysDef
    Parent <- ParentDef
    Root = ""
    IsDirKey <- IsDirDef
    LazyDirs <- LazyDef
    Filters <- FiltersDef
    FilterKeys <- FilterKeysDef
    Changed <- ChangedDef
    ChangedLazy <- ChangedLazyDef
    MaxSteps = 100000
