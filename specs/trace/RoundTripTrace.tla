--------------------------- MODULE RoundTripTrace ---------------------------
(* [{src: {p: c}, staged: {listing: {p: c}, nfiles, size}, reloaded: {p: c},                      *)
(*   fresh: {object: {p: c}, index: {p: c}}, extra: {object: [..], index: [..]}}]                   *)
(* extra = files found in the fresh location that are not among the source's paths                 *)
EXTENDS MC_RoundTrip, Json, IOUtils, Sequences, SequencesExt
Recs == JsonDeserialize(IOEnv.TRACE_FILE)
VARIABLE i
Fn(r) == [p \in DOMAIN r |-> r[p]]
TInit == /\ i \in 1..Len(Recs) /\ src = [p \in Paths |-> IF p \in DOMAIN Recs[i].src THEN Recs[i].src[p] ELSE Absent]
         /\ listing = <<>> /\ counts = [nfiles |-> 0, size |-> 0] /\ store = {} /\ reloaded = <<>>
         /\ fresh = [r \in Routes |-> <<>>] /\ pc = "stage" /\ act = [op |-> "Init"] /\ round = 0
\* (a record is one round: the second round of a case is a record of its own, staged with the first round's warm cache)
TNext == Next /\ act'.op # "Restage" /\ UNCHANGED i
TSpec == TInit /\ [][TNext]_<<vars, i>>
Say(clause) == PrintT(<<"VERDICT", "C02", clause, i, 0, {}>>)
R == Recs[i]
Judge ==
    pc = "done" =>
        /\ (C02_Listing(src, Fn(R.staged.listing)) \/ Say("StagedListingWrong"))
        /\ (C02_Counts(src, [nfiles |-> R.staged.nfiles, size |-> R.staged.size]) \/ Say("CountOrSizeWrong"))
        /\ (C02_Reload(Fn(R.staged.listing), Fn(R.reloaded)) \/ Say("ReloadDiffers"))
        /\ (R.raised = <<>> \/ Say("CheckoutRaised"))
        /\ \A r \in Routes : r \in DOMAIN R.fresh =>
              /\ (C02_Fresh(src, Fn(R.fresh[r])) \/ Say("RoundTripDiffers:" \o r))
              /\ (R.extra[r] = <<>> \/ Say("StrayFileAppeared:" \o r))
=============================================================================
