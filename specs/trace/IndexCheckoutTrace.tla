------------------------- MODULE IndexCheckoutTrace -------------------------
(* [{ws: {path: node}, tgt: {path: node}, avail: [c..], delete: bool,                              *)
(*   lists1: {files_delete, dirs_delete, dirs_create, files_create, files_chmod: [paths]},          *)
(*   after: {path: node}, errs: [paths], lists2: {...}}]     node = {k: "f"|"d", c, x}               *)
\* (hard and symbolic links share their mode bits with the cache object and with each other: with that link type the
\* executable bits are compared through the C09 predicates only, not one by one with the model)
EXTENDS MC_IndexCheckout, Json, IOUtils
Recs == JsonDeserialize(IOEnv.TRACE_FILE)
VARIABLE i
tvars == <<vars, i>>
NodeOf(r, p) == IF p \in DOMAIN r THEN [k |-> r[p].k, c |-> r[p].c, x |-> r[p].x] ELSE Nope
TreeOf(r) == [p \in Paths |-> NodeOf(r, p)]
ListsOf(r) == [files_delete |-> ToSet(r.files_delete), dirs_delete |-> ToSet(r.dirs_delete), dirs_create |-> ToSet(r.dirs_create),
               files_create |-> ToSet(r.files_create), files_chmod |-> ToSet(r.files_chmod)]
AsSets(L) == [files_delete |-> L.files_delete, dirs_delete |-> ToSet(L.dirs_delete), dirs_create |-> L.dirs_create,
              files_create |-> L.files_create, files_chmod |-> L.files_chmod]
TraceInit == /\ i \in 1..Len(Recs)
             /\ ws = TreeOf(Recs[i].ws) /\ tgt = TreeOf(Recs[i].tgt) /\ avail = ToSet(Recs[i].avail) /\ del = Recs[i].delete
             /\ link = Recs[i].link /\ hashed = Recs[i].hashed
             /\ lists = [files_delete |-> {}] /\ errs = {} /\ crash = FALSE /\ dev = {} /\ pc = "compare" /\ act = [op |-> "Init"]
TraceNext == Next /\ UNCHANGED i
TraceSpec == TraceInit /\ [][TraceNext]_tvars
Say(tag, clause) == PrintT(<<tag, "C09", clause, i, 0, dev>>)
NoX(t) == [p \in Paths |-> [k |-> t[p].k, c |-> t[p].c]]
R == Recs[i]
Judge ==
    /\ (pc = "apply" => (AsSets(lists) = ListsOf(R.lists1) \/ Say("DIVERGENCE", "compare")))
    /\ (pc = "again" =>
          LET w == TreeOf(R.after)
              w0 == TreeOf(R.ws)
              E == ToSet(R.errs)
          IN /\ ((E = errs /\ R.crashed = crash /\ (IF crash \/ link # "copy" THEN NoX(w) = NoX(ws) ELSE w = ws)) \/ "F16" \in dev \/ Say("DIVERGENCE", "apply"))
             /\ ((del /\ Available(tgt, avail)) => (C09_Files(tgt, w) \/ Say("VERDICT", "FilesNotTarget")))
             /\ ((del /\ Available(tgt, avail)) => (C09_Dirs(tgt, w) \/ Say("VERDICT", "TargetDirMissing")))
             /\ (~del => (C09_Keeps(w0, tgt, w) \/ Say("VERDICT", "RemovedOutsideTarget")))
             /\ (C09_Reported(tgt, avail, w, E) \/ Say("VERDICT", "UnavailableNotReported"))
             \* a target directory whose directory object cannot be read is reported through the error callback, whatever
             \* the workspace already holds under that name (for the model such a target lists nothing)
             /\ (R.broken => (R.broken_reported \/ Say("VERDICT", "UnreadableDirectoryNotReported")))
             /\ ((del /\ Available(tgt, avail)) => ((LET L2 == ListsOf(R.lists2) IN L2.files_create = {} /\ L2.dirs_create = {} /\ L2.files_delete = {} /\ L2.dirs_delete = {}) \/ Say("VERDICT", "SecondCompareNotEmpty"))))
=============================================================================
