----------------------- MODULE SerializeTablesTrace -----------------------
(* Observed dictionary conversions: {metas: [{m, d, back, d2}], hashes: [{h, d, back}],   *)
(*  entries: [{meta, hash, loaded, d, back}], listings: [{ok}]}                            *)
(* m/back = field -> value strings, d/d2 = [[field, value], ...]                           *)
EXTENDS SerializeTables, Json, IOUtils, Sequences, SequencesExt
Doc == JsonDeserialize(IOEnv.TRACE_FILE)
VARIABLES i
PairsOf(sq) == {<<sq[x][1], sq[x][2]>> : x \in DOMAIN sq}
RecOf(r) == [f \in MetaFields |-> r[f]]
Say(clause, k) == PrintT(<<"VERDICT", "C20", clause, k, 0, {}>>)
TInit == i = 0 /\ m = [f \in MetaFields |-> None] /\ h = [name |-> None, value |-> None]
TNext == i < Len(Doc.metas) + Len(Doc.hashes) /\ i' = i + 1 /\ UNCHANGED vars
TSpec == TInit /\ [][TNext]_<<vars, i>>
Judge ==
    IF i = 0 THEN TRUE
    ELSE IF i <= Len(Doc.metas)
    THEN LET r == Doc.metas[i]
             mm == RecOf(r.m)
         IN /\ (C20_MetaCarriesAll(mm, PairsOf(r.d)) \/ Say("MetaDictDropsOrAdds", i))
            /\ (C20_MetaLossless(mm, RecOf(r.back)) \/ Say("MetaRoundTripLossy", i))
            /\ (C20_MetaIdempotent(PairsOf(r.d), PairsOf(r.d2)) \/ Say("MetaNotIdempotent", i))
            /\ ((C20_ListingLossless(mm, RecOf(r.lst)) /\ r.lst_ok) \/ Say("ListingWithMetaLossy", i))
    ELSE LET r == Doc.hashes[i - Len(Doc.metas)]
         IN (C20_HashLossless(r.h, PairsOf(r.d), r.back) \/ Say("HashRoundTripLossy", i))
=============================================================================
