-------------------------- MODULE HashStreamTrace --------------------------
(* Observed hashing calls: [{stream, content: [kinds], reads: [units], api, alg,                *)
(*   model_match, raw_match, norm_match, lf_equal, out_ok, count_ok, one_read}]                 *)
(*   model_match : digest = reference digest of concretise(what the spec says was fed)          *)
(*   raw_match   : digest = reference digest of the raw content                                 *)
(*   norm_match  : digest = reference digest of the CRLF->LF normalised content                 *)
(*   wu          : units covered by the 512-byte window (2: 256-byte units; 1: the 32 KiB units of the file-level calls)  *)
(*   lf_equal    : the LF variant of the content, hashed the same way in one read, has the same digest *)
EXTENDS HashStream, Json, IOUtils
Recs == JsonDeserialize(IOEnv.TRACE_FILE)
VARIABLE i
TInit == i = 0 /\ Init /\ content = <<>> /\ stream = "plain"
TNext == i < Len(Recs) /\ i' = i + 1 /\ UNCHANGED vars
TSpec == TInit /\ [][TNext]_<<vars, i>>
Say(tag, clause) == PrintT(<<tag, "C14", clause, i, 0, {}>>)
Judge ==
    i = 0 \/
    LET r == Recs[i]
        c == r.content
        TextC(x) == TextChunkW(x, r.wu)     \* the record says how many of its units the 512-byte window covers
    IN /\ (r.model_match \/ Say("DIVERGENCE", r.api))
       /\ (r.out_ok \/ Say("VERDICT", "PassThroughAltered"))
       \* a digest asked for part-way is the digest of what was fed so far (C14_SoFar) and does not stop the hashing
       /\ (r.peek_ok \/ Say("VERDICT", "DigestMidStreamWrong"))
       /\ (r.stream = "plain" =>
             /\ (r.raw_match \/ Say("VERDICT", "DigestDependsOnChunkingOrWrong"))
             /\ (r.count_ok \/ Say("VERDICT", "CountWrong")))
       /\ ((r.stream = "legacy" /\ r.one_read) =>
             /\ ((IF c # <<>> /\ TextC(c) THEN r.norm_match ELSE r.raw_match) \/ Say("VERDICT", "LegacyOneReadDigest"))
             /\ (((c # <<>> /\ TextC(c)) => r.lf_equal) \/ Say("VERDICT", "CRLFandLFVariantsDiffer")))
=============================================================================
