SPECIFICATION TSpec
CONSTANTS
    BoolVals = {}
    IntVals = {}
    StrVals = {}
    NameVals = {}
    ValueVals = {}
INVARIANT Judge
