SPECIFICATION TraceSpec
CONSTANTS
    Paths = {"p", "q", "r", "o"}
    StorePaths = {"o"}
    LinkPaths = {"r"}
    Contents = {"c1", "c2", "c3"}
    Size <- SizeDef
    Algs = {"md5", "sha256"}
    MaxSteps = 100000
