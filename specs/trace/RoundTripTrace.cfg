SPECIFICATION TSpec
CONSTANTS
    Paths <- PathsDef
    Contents <- ContentsTr
    Size <- SizeTr
    Routes = {"object", "index"}
INVARIANT Judge
