SPECIFICATION TSpec
CONSTANTS
    Paths <- PathsDef
    Contents <- ContentsTr
    Size <- SizeTr
    Routes = {"object", "index"}
    Spellings = {"plain", "slash", "rel"}
INVARIANT Judge
