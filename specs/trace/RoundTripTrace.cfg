SPECIFICATION TSpec
CONSTANTS
    Paths <- PathsDef
    Contents <- ContentsTr
    Size <- SizeTr
    Routes = {"object", "index", "lazy"}
    Spellings = {"plain", "slash", "rel"}
INVARIANT Judge
