-------------------------- MODULE IndexDiffTrace --------------------------
(* Validates observed calls of index.diff.diff against IndexDiff.             *)
(* JSON: {keys, parent, recs: [{o, n: {key: {m, h}}, calls: [{opts, r, q, rswap}]}]} *)
(*   r     = changes without rename detection, [[typ, key], ...]              *)
(*   q     = the same call with rename detection ([] when not requested),      *)
(*           renames as ["rename", oldkey, newkey]                             *)
(*   rswap = the call with the two indexes swapped                             *)
EXTENDS IndexDiff, Json, IOUtils

Doc == JsonDeserialize(IOEnv.TRACE_FILE)
TrKeys == ToSet(Doc.keys)
TrParent == [k \in TrKeys |-> Doc.parent[k]]
Recs == Doc.recs

VARIABLES i, j
tvars == <<vars, i, j>>

FromJ(x) ==
    LET base == [k \in Keys |->
                   IF x[k].m = "-" THEN NoEntry
                   ELSE [m |-> x[k].m, h |-> IF x[k].h \in {"none", "D"} THEN NoH ELSE FileH(x[k].h)]]
    IN [k \in Keys |-> IF x[k].h = "D" THEN [m |-> base[k].m, h |-> DirH(Sig(base, k))] ELSE base[k]]
ViewKeys == {k \in Keys : k = "a" \/ Under(k, "a")}
KeepA(idx) == [k \in Keys |-> IF k \in ViewKeys THEN idx[k] ELSE NoEntry]
CallRec == Recs[i].calls[j]
OptsOf(c) == [unchanged |-> c.opts.unchanged, hash_only |-> c.opts.hash_only, meta_only |-> c.opts.meta_only,
              shallow |-> c.opts.shallow, key |-> c.opts.key]
Pairs(sq) == {<<sq[x][1], sq[x][2]>> : x \in DOMAIN sq}
Triples(sq) == {IF Len(sq[x]) = 3 THEN <<sq[x][1], sq[x][2], sq[x][3]>> ELSE <<sq[x][1], sq[x][2]>> : x \in DOMAIN sq}

TraceInit ==
    /\ i \in 1..Len(Recs) /\ j \in 1..Len(Recs[i].calls)
    \* (view: both sides are filtered views keeping the keys at or below "a" - the filter rejects the root key itself;
    \* diffing them is diffing the restricted indexes)
    /\ old = (IF Recs[i].calls[j].opts.view THEN KeepA(FromJ(Recs[i].o)) ELSE FromJ(Recs[i].o))
    /\ new = (IF Recs[i].calls[j].opts.view THEN KeepA(FromJ(Recs[i].n)) ELSE FromJ(Recs[i].n))
    /\ opts = OptsOf(Recs[i].calls[j])
    /\ queue = InitQueue(old, new) /\ out = {} /\ pc = "bfs"
TraceNext == Next /\ UNCHANGED <<i, j>>
TraceSpec == TraceInit /\ [][TraceNext]_tvars

Say(tag, clause) == PrintT(<<tag, "C08", clause, i, j, {}>>)
NoDup(sq) == \A x, y \in DOMAIN sq : x # y => sq[x] # sq[y]

Judge ==
    pc = "done" =>
      LET c == CallRec
          r == Pairs(c.r)
          rs == Pairs(c.rswap)
      IN /\ (r = out \/ Say("DIVERGENCE", "bfs"))
         /\ ((NoDup(c.r) /\ C08_Once(r)) \/ Say("VERDICT", "Once"))
         /\ (C08_Keys(old, new, opts, r) \/ Say("VERDICT", "Keys"))
         /\ (C08_Labels(old, new, opts, r) \/ Say("VERDICT", "Labels"))
         /\ (C08_NothingHidden(old, new, opts, r) \/ Say("VERDICT", "Hidden"))
         /\ (C08_NoUnchangedUnlessAsked(opts, r) \/ Say("VERDICT", "UnchangedReported"))
         /\ (rs = {<<Swap(x[1]), x[2]>> : x \in r} \/ Say("VERDICT", "SwapSymmetry"))
         /\ ((old = new => \A x \in r : x[1] = "unchanged") \/ Say("VERDICT", "SelfDiff"))
         /\ (c.opts.renames => ((NoDup(c.q) /\ C08_Renames(old, new, r, Triples(c.q))) \/ Say("VERDICT", "Renames")))
=============================================================================
