SPECIFICATION TraceSpec
CONSTANTS
    Keys <- TrKeys
    Parent <- TrParent
    FileMetas = {"f1", "f2", "f3", "f4"}
    FileHashes = {"h1", "h2"}
    Root = ""
INVARIANT Judge
