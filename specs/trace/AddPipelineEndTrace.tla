------------------------ MODULE AddPipelineEndTrace ------------------------
(* [{privileged, writers, data, ok: {w: bool}, errtypes: [..], missing: [oid..], bad: [..], unprot: [..],          *)
(*   dir_ok: {w: bool}, rows_wrong, sig}]  - one record per executed schedule: what the writers reported and *)
(* what an audit of the shared store and state database found once all of them had finished.                *)
EXTENDS Naturals, Sequences, SequencesExt, Json, IOUtils, TLC
CONSTANT KnownDev
Recs == JsonDeserialize(IOEnv.TRACE_FILE)
VARIABLE i
Init == i = 0
Next == i < Len(Recs) /\ i' = i + 1
Spec == Init /\ [][Next]_i
R == Recs[i]
Failed == {w \in DOMAIN R.ok : ~R.ok[w]}
\* F10: an unprivileged writer failing with a permission error on an object another writer had already protected
\* (EACCES = 13: opening the other writer's 0o444 file for writing; not EPERM, which a chmod by a non-owner gives)
Dev == IF "F10" \in KnownDev /\ ~R.privileged /\ Failed # {} /\ ToSet(R.errtypes) \subseteq {"PermissionError"}
          /\ ToSet(R.errnos) \subseteq {13} THEN {"F10"} ELSE {}
Say(clause, d) == PrintT(<<"VERDICT", "C16", clause, i, 0, d>>)
\* every schedule of the same writers (over the same data) must end in the same store
SameOutcome == \A j \in 1..Len(Recs) : (Recs[j].writers = R.writers /\ Recs[j].uids = R.uids /\ Recs[j].data = R.data
                                         /\ \A w \in DOMAIN Recs[j].ok : Recs[j].ok[w]) => Recs[j].sig = R.sig
Judge ==
    i = 0 \/
    /\ (Failed = {} \/ Say("WriterFailed", Dev))
    /\ ((R.missing = <<>> /\ R.bad = <<>>) \/ Say("ObjectMissingOrCorrupt", Dev))
    /\ (R.unprot = <<>> \/ Say("ObjectLeftUnprotected", Dev))
    /\ ((\A w \in DOMAIN R.dir_ok : R.ok[w] => R.dir_ok[w]) \/ Say("DirectoryObjectWrong", Dev))
    /\ (R.rows_wrong = 0 \/ Say("StateRowVouchesForWrongBytes", Dev))
    /\ ((Failed # {}) \/ SameOutcome \/ Say("OutcomeDependsOnInterleaving", {}))
=============================================================================
