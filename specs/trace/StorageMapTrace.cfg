SPECIFICATION TraceSpec
CONSTANTS
    PrefixSet <- PrefixesDef
    Len_ <- LenDef
    PrefOf <- PrefOfDef
    Entries <- EntriesDef
    Covers <- CoversDef
    ObjOf <- ObjOfDef
    Objects <- ObjectsDef
    Listed <- ListedDef
    Remotes <- RemotesDef
    Caches <- CachesDef
    KnownDev = {}
    Configs = {}
    MaxFaults = 0
