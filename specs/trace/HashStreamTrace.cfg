SPECIFICATION TSpec
CONSTANTS
    Kinds = {"T", "C", "R", "L", "N", "H"}
    MaxLen = 0
    ReadSizes = {}
    WindowUnits = 2
    Short = FALSE
INVARIANT Judge
