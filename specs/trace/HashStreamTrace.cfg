SPECIFICATION TSpec
CONSTANTS
    Kinds = {"T", "C", "R", "L", "N", "H"}
    MaxLen = 0
    ReadSizes = {}
    Short = FALSE
INVARIANT Judge
