-------------------------- MODULE TreeCanonTrace --------------------------
(* {paths, subdirs, under, contents, serials: [{bid, listing}], traces: [{init: {p: c}, events: [...]}]}      *)
(* event: {act: {op, ...}, res: {...}}                                                                        *)
(*   Edit  : act {p, c}                                                                                        *)
(*   Build : act {cfg: {state}}, res {listing, parsed, loaded: [[p, c]..], oid_canon, nfiles, size_ok}         *)
(*   Sub   : act {d}, res {listing, oid_canon, direct_same}                                                    *)
(*   Perm  : res {entries, listing, oid_canon, same_as_first}   (Tree.add in a random order + random metadata)  *)
EXTENDS TreeCanon, Json, IOUtils
Doc == JsonDeserialize(IOEnv.TRACE_FILE)
TrPaths == ToSet(Doc.paths)
TrContents == ToSet(Doc.contents)
TrSubDirs == ToSet(Doc.subdirs)
TrUnder == [d \in TrSubDirs |-> ToSet(Doc.under[d])]
Traces == Doc.traces
VARIABLES tid, l
allvars == <<vars, tid, l>>
Ev == Traces[tid].events[l]
Have == l <= Len(Traces[tid].events)
Lst(sq) == {<<sq[x][1], sq[x][2]>> : x \in DOMAIN sq}
TraceInit == /\ tid \in 1..Len(Traces) /\ l = 1
             /\ ws = [p \in Paths |-> IF p \in DOMAIN Traces[tid].init THEN Traces[tid].init[p] ELSE Absent]
             /\ warm = [p \in Paths |-> Absent] /\ last = [op |-> "none"] /\ act = [op |-> "Init"] /\ steps = 0
Step(e) ==
    \/ e.act.op = "Edit" /\ Edit(e.act.p, e.act.c)
    \/ e.act.op = "Build" /\ BuildAny([state |-> e.act.cfg.state, sp |-> e.act.cfg.sp]) /\ last'.listing = Lst(e.res.listing)
    \/ e.act.op = "Sub" /\ Sub(e.act.d) /\ last'.listing = Lst(e.res.listing)
    \/ e.act.op = "BuildOther" /\ BuildOther
    \/ e.act.op = "UpdateMeta" /\ UpdateMeta /\ last'.listing = Lst(e.res.listing)
    \/ e.act.op = "Perm" /\ Tick /\ act' = [op |-> "Perm"] /\ UNCHANGED <<ws, warm, last>>
Match == Have /\ Step(Ev) /\ l' = l + 1 /\ UNCHANGED tid
Say(tag, clause) == PrintT(<<tag, "C03", clause, tid, l, {}>>)
Resync == /\ ws' = IF Ev.act.op = "Edit" THEN [ws EXCEPT ![Ev.act.p] = Ev.act.c] ELSE ws
          /\ warm' = IF Ev.act.op = "Build" /\ Ev.act.cfg.state = "real" THEN [p \in Paths |-> IF p \in Files(ws) THEN ws[p] ELSE warm[p]]
                     ELSE IF Ev.act.op = "BuildOther" THEN [p \in Paths |-> IF p \in Files(ws) THEN "other:" \o ws[p] ELSE warm[p]] ELSE warm
          /\ last' = [op |-> Ev.act.op, listing |-> IF "listing" \in DOMAIN Ev.res THEN Lst(Ev.res.listing) ELSE {},
                      oid |-> IF "listing" \in DOMAIN Ev.res THEN Lst(Ev.res.listing) ELSE {}]
          /\ act' = [op |-> Ev.act.op] /\ steps' = steps + 1
Fail == Have /\ ~ENABLED Match /\ Resync /\ l' = l + 1 /\ UNCHANGED tid /\ Say("DIVERGENCE", Ev.act.op)
Judge ==
    LET e == Ev  r == Ev.res IN
    /\ (e.act.op = "Build" =>
          /\ (Lst(r.listing) = Truth(ws') \/ Say("VERDICT", "ListingNotFunctionOfContents"))
          /\ (r.oid_canon \/ Say("VERDICT", "OidNotCanonical"))
          /\ (Lst(r.parsed) = Lst(r.listing) \/ Say("VERDICT", "ParseOfSerialisedDiffers"))
          /\ (Lst(r.loaded) = Lst(r.listing) \/ Say("VERDICT", "ReloadDiffers")))
    /\ (e.act.op = "Sub" =>
          /\ (Lst(r.listing) = TruthUnder(ws', e.act.d) \/ Say("VERDICT", "SubListing"))
          /\ ((r.oid_canon /\ r.direct_same) \/ Say("VERDICT", "SubObjectDiffersFromDirectBuild")))
    /\ (e.act.op = "UpdateMeta" =>
          /\ ((last.op \in {"Build", "UpdateMeta"} => Lst(r.listing) = last.listing) \/ Say("VERDICT", "UpdateMetaChangedEntries"))
          /\ ((r.oid_canon /\ r.same_oid) \/ Say("VERDICT", "OidNotCanonical")))
    /\ (e.act.op = "Perm" =>
          ((Lst(r.listing) = Lst(r.entries) /\ r.oid_canon /\ r.same_as_first) \/ Say("VERDICT", "InsertionOrderOrMetadataMatters")))
    \* two different listings never serialise to the same bytes (checked once per document)
    /\ ((tid = 1 /\ l = 1) =>
          ((\A x, y \in DOMAIN Doc.serials : Doc.serials[x].bid = Doc.serials[y].bid => Lst(Doc.serials[x].listing) = Lst(Doc.serials[y].listing))
              \/ Say("VERDICT", "SerialisationCollision")))
TraceNext == (Match \/ Fail) /\ Judge
TraceSpec == TraceInit /\ [][TraceNext]_allvars
=============================================================================
