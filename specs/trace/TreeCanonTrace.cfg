SPECIFICATION TraceSpec
CONSTANTS
    Paths <- TrPaths
    Contents <- TrContents
    SubDirs <- TrSubDirs
    Under <- TrUnder
    MaxSteps = 100000
