SPECIFICATION TraceSpec
CONSTANTS
    Files <- TrFiles
    Dirs <- TrDirs
    Lists <- TrLists
    Stores <- TrStores
    Class <- TrClass
    IdxStore <- TrIdx
    KnownDev = {}
    Ops <- AllOps
    Requests = {}
    MaxFaults = 0
    MaxXfers = 0
    XferPairs = {}
    AddTargets = {}
    Modes = {}
    InitStores = {}
