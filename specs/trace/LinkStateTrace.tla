--------------------------- MODULE LinkStateTrace ---------------------------
(* [[{act: {...}, exists: {p: bool}, rows: [p..], returned: [p..], gone: [p..], others_same}]]                 *)
(* exists / rows = what is on disk and in the links table after the step; for a CleanUp: returned = what        *)
(* get_unused_links answered, gone = the paths that disappeared, others_same = every other path kept its bytes. *)
EXTENDS LinkState, Json, IOUtils, Sequences, SequencesExt
Traces == JsonDeserialize(IOEnv.TRACE_FILE)
VARIABLES tid, l
allvars == <<vars, tid, l>>
Ev == Traces[tid][l]
Have == l <= Len(Traces[tid])
TraceInit == tid \in 1..Len(Traces) /\ l = 1 /\ Init
Step(a) ==
    \/ a.op = "Touch" /\ Touch(a.p, a.how)
    \/ a.op = "Remove" /\ Remove(a.p)
    \/ a.op = "Record" /\ Record(a.p)
    \/ a.op = "CleanUp" /\ CleanUp(ToSet(a.used))
Seen == /\ \A p \in Paths : (sig'[p] # Absent) = Ev.exists[p]
        /\ {p \in Paths : rec'[p] # None} = ToSet(Ev.rows)
Match == /\ Have /\ Step(Ev.act) /\ Seen
         /\ (Ev.act.op = "CleanUp" => last'.removed = ToSet(Ev.gone) /\ last'.removed = ToSet(Ev.returned))
         /\ l' = l + 1 /\ UNCHANGED tid
Say(tag, clause) == PrintT(<<tag, "C05", clause, tid, l, {}>>)
\* a diverging step: follow the disk and the table
Resync ==
    /\ sig' = [p \in Paths |-> IF ~Ev.exists[p] THEN Absent ELSE IF sig[p] # Absent /\ Ev.act.op # "Touch" THEN sig[p] ELSE clock]
    /\ clock' = clock + 1
    /\ rec' = [p \in Paths |-> IF p \notin ToSet(Ev.rows) THEN None ELSE IF rec[p] # None /\ Ev.act.op # "Record" THEN rec[p] ELSE clock]
    /\ dirty' = IF Ev.act.op = "Touch" THEN [dirty EXCEPT ![Ev.act.p] = TRUE]
                ELSE IF Ev.act.op = "Record" /\ Ev.exists[Ev.act.p] THEN [dirty EXCEPT ![Ev.act.p] = FALSE] ELSE dirty
    /\ last' = [op |-> Ev.act.op, removed |-> IF Ev.act.op = "CleanUp" THEN ToSet(Ev.gone) ELSE {}]
    /\ act' = [op |-> Ev.act.op] /\ steps' = steps + 1
Fail == Have /\ ~ENABLED Match /\ Resync /\ l' = l + 1 /\ UNCHANGED tid /\ Say("DIVERGENCE", Ev.act.op)
Judge ==
    Ev.act.op = "CleanUp" =>
        /\ (C05_CleanUpSafe(Recorded, Dirty, ToSet(Ev.act.used), ToSet(Ev.gone)) \/ Say("VERDICT", "CleanUpRemovedUnrecordedUsedOrModifiedPath"))
        /\ (Ev.others_same \/ Say("VERDICT", "CleanUpTouchedAnotherPath"))
TraceNext == (Match \/ Fail) /\ Judge
TraceSpec == TraceInit /\ [][TraceNext]_allvars
=============================================================================
