---------------------- MODULE AddPipelineCrashTrace ----------------------
(* {reach: {style: [{o: [final, prot, vouched]}]},                                                       *)
(*  recs: [{scenario, style, n, half, crash: {objs: {o: {final, prot, vouched, vouched_wrong}}, tmps, aliens},  *)
(*          final: {...}, rerun_rc, reference: {o: {...}}}]}                                               *)
(* crash = the audit right after the kill, final = the audit after re-running the operation.              *)
EXTENDS Naturals, Sequences, SequencesExt, Json, IOUtils, TLC
CONSTANT KnownDev
Doc == JsonDeserialize(IOEnv.TRACE_FILE)
Recs == Doc.recs
Objs == {"f1", "f2", "d1"}
VARIABLE i
Init == i = 0
Next == i < Len(Recs) /\ i' = i + 1
Spec == Init /\ [][Next]_i
R == Recs[i]
Proj(a) == [o \in Objs |-> <<a.objs[o].final, a.objs[o].prot, a.objs[o].vouched>>]
ReachSet(style) == {[o \in Objs |-> <<x[o][1], x[o][2], x[o][3]>>] : x \in ToSet(Doc.reach[style])}
\* a crash inside a copy can leave a partial file only under a temporary name; at a final path the model knows
\* "none", "empty" (the reflink probe) and "ok"
\* F7 is about file objects (the reflink probe is only made between two local paths); a directory object is copied
\* from the in-memory staging area and is never empty at its final path
Dev == IF "F7" \in KnownDev /\ R.style = "add" /\ (\E o \in {"f1", "f2"} : R.crash.objs[o].final = "empty")
          /\ R.crash.objs["d1"].final # "empty" THEN {"F7"} ELSE {}
Say(tag, clause, d) == PrintT(<<tag, "C15", clause, i, 0, d>>)
Good(a, o) == a.objs[o].final = "ok"
Judge ==
    i = 0 \/
    LET c == R.crash
        f == R.final
        \* a verifying transfer out of a store one of whose objects has decayed is judged by the predicates and against the
        \* uninterrupted run only: the design has no action for what verification drops (no reach set, nothing to converge to
        \* but the reference)
        unmodelled == R.style = "transferv-rot"
    IN /\ (R.half \/ unmodelled \/ Proj(c) \in ReachSet(R.style) \/ Say("DIVERGENCE", "crash-state-not-reachable-in-spec:" \o R.scenario, {}))
       \* ---- the crash state itself
       /\ ((\A o \in Objs : c.objs[o].prot => c.objs[o].final \in {"ok", "none"}) \/ Say("VERDICT", "MismatchingObjectLeftProtected", {}))
       \* (a row vouches for a mismatching object when the hash it records is not the hash of the bytes there; a truthful row
       \* about an object that does not match its NAME - verification hashed it and was killed before removing it - harms
       \* nobody: the next check reads the true hash from it and discards the object)
       /\ ((\A o \in Objs : c.objs[o].vouched => ((Good(c, o) \/ unmodelled) /\ ~c.objs[o].vouched_wrong)) \/ Say("VERDICT", "MismatchingObjectVouchedFor", {}))
       /\ ((\A o \in Objs : ~(c.objs[o].prot /\ c.objs[o].final \notin {"ok", "none"})) \/ Say("VERDICT", "MismatchingObjectLeftProtected", {}))
       /\ ((Good(c, "d1") => (Good(c, "f1") /\ Good(c, "f2"))) \/ Say("VERDICT", "DirectoryObjectWithoutItsFiles", {}))
       /\ (c.aliens = <<>> \/ Say("VERDICT", "ObjectUnderWrongName", {}))
       \* ---- after re-running the interrupted operation
       /\ (R.rerun_rc = 0 \/ Say("VERDICT", "RerunFailed", Dev))
       /\ (unmodelled \/ (\A o \in Objs : Good(f, o) /\ f.objs[o].prot) \/ Say("VERDICT", "RerunDidNotConverge", Dev))
       /\ ((\A o \in Objs : f.objs[o].final = R.reference[o].final /\ f.objs[o].prot = R.reference[o].prot)
              \/ Say("VERDICT", "RerunDiffersFromUninterruptedRun", Dev))
       /\ ((\A o \in Objs : f.objs[o].vouched => (Good(f, o) /\ ~f.objs[o].vouched_wrong)) \/ Say("VERDICT", "MismatchVouchedAfterRerun", Dev))
       /\ (f.aliens = <<>> \/ Say("VERDICT", "ObjectUnderWrongNameAfterRerun", Dev))
=============================================================================
