------------------------- MODULE ObjectStoreTrace -------------------------
(* Validates traces recorded from the real object stores against ObjectStore. *)
(*                                                                            *)
(* One JSON document:                                                         *)
(*   {universe: {files, dirs, lists: {d: [f..]}, stores, class: {s: c}, idx},  *)
(*    traces: [{init: {store: {s: {o: st}}, ridx: [..]},                       *)
(*              events: [{act: {...}, store: {...}, ridx: [..], last: {...},   *)
(*                        aliens: [..]}]}]}                                    *)
(* Each event is one design action (arguments logged) together with the full   *)
(* projected state observed right after it.  Unlogged: the ghosts (delivered,  *)
(* opened, unfin, dev) and the internal bookkeeping of a running transfer -     *)
(* they are inferred by the design actions.                                    *)
EXTENDS ObjectStore, Json, IOUtils, Sequences, SequencesExt

Doc == JsonDeserialize(IOEnv.TRACE_FILE)
U == Doc.universe
Traces == Doc.traces

TrFiles  == ToSet(U.files)
TrDirs   == ToSet(U.dirs)
TrLists  == [d \in TrDirs |-> ToSet(U.lists[d])]
TrStores == ToSet(U.stores)
TrClass  == [s \in TrStores |-> U.class[s]]
TrIdx    == U.idx
AllOps   == {"add", "tamper", "extdel", "check", "status", "cmpstatus", "gc", "transfer", "abort"}

VARIABLES tid, l
allvars == <<vars, tid, l>>

StoreOf(r) == [s \in Stores |-> [o \in Oids |->
                 IF s \in DOMAIN r /\ o \in DOMAIN r[s] THEN r[s][o] ELSE Absent]]
Ev == Traces[tid].events[l]
Have == l <= Len(Traces[tid].events)

TraceInit ==
    /\ tid \in 1..Len(Traces) /\ l = 1
    /\ store = StoreOf(Traces[tid].init.store)
    /\ ridx = ToSet(Traces[tid].init.ridx)
    /\ delivered = [s \in Stores |-> PresentSet(store, s)]
    \* a store that starts with mismatching objects has been tampered with before the trace begins
    \* (and one that starts with a directory object but not all its files was not closed to begin with)
    /\ opened = {s \in Stores : \E o \in Oids : store[s][o] \in {"bad_u", "bad_p"}}
                \cup {Unclosed(s) : s \in {t \in Stores : ~Closed(store, t)}}
    /\ gced = {} /\ unfin = {} /\ dev = {}
    /\ nx = 0 /\ act = [op |-> "Init"] /\ last = [op |-> "init"]
    /\ ph = "idle" /\ xs = [src |-> None] /\ todo = {} /\ cur = None /\ bound = {} /\ curFails = {}
    /\ pend = None /\ loose = {} /\ failed = {} /\ okDirs = {} /\ batch = {} /\ lost = {} /\ bk = "none"

(* the design action an event claims to be *)
Step(e) ==
    LET a == e.act IN
    \/ a.op = "AddObj" /\ AddObj(a.s, a.x)
    \/ a.op = "AddMany" /\ AddMany(a.s, ToSet(a.xs))
    \/ a.op = "IndexElsewhere" /\ IndexElsewhere(ToSet(a.xs))
    \/ a.op = "Tamper" /\ Tamper(a.s, a.o)
    \/ a.op = "ExtDelete" /\ ExtDelete(a.s, a.o)
    \/ a.op = "Check" /\ Check(a.s, a.o, a.ro)
    \/ a.op = "Status" /\ Status(a.s, ToSet(a.ids), a.shallow, a.idx, a.ro)
    \/ a.op = "CompareStatus" /\ CompareStatus(a.a, a.b, ToSet(a.ids), a.shallow)
    \/ a.op = "Gc" /\ Gc(a.s, ToSet(a.used), ToSet(a.foreign), a.ord, a.shallow, a.dry, a.ro, a.cs, a.cro)
    \/ a.op = "TransferBegin" /\ TransferBegin(a.src, a.dst, ToSet(a.req), a.shallow, ToSet(a.F), a.verify, a.idx)
    \/ a.op = "Pick" /\ Pick(a.d)
    \/ a.op = "Put" /\ (PutBound(a.x) \/ PutDir(a.x) \/ PutLoose(a.x)) /\ act'.res = a.res
    \/ a.op = "TransferEnd" /\ TransferEnd
    \/ a.op = "Abort" /\ Abort

(* the logged result, with JSON arrays turned into sets *)
ObsLast(e) ==
    LET r == e.last IN
    CASE r.op = "status" /\ "exc" \notin DOMAIN r -> [op |-> "status", exists |-> ToSet(r.exists), missing |-> ToSet(r.missing)]
      [] r.op = "cmpstatus" /\ "exc" \notin DOMAIN r ->
            [op |-> "cmpstatus", ok |-> ToSet(r.ok), missing |-> ToSet(r.missing), new |-> ToSet(r.new), deleted |-> ToSet(r.deleted)]
      [] r.op = "xstatus" /\ "exc" \notin DOMAIN r -> [op |-> "xstatus", new |-> ToSet(r.new), missing |-> ToSet(r.missing)]
      [] r.op = "transfer" /\ "exc" \notin DOMAIN r -> [op |-> "transfer", transferred |-> ToSet(r.transferred), failed |-> ToSet(r.failed)]
      [] r.op = "add" /\ "exc" \notin DOMAIN r -> [op |-> "add", new |-> ToSet(r.new)]
      [] OTHER -> r

Match ==
    /\ Have
    /\ Step(Ev)
    /\ store' = StoreOf(Ev.store)
    /\ ridx' = ToSet(Ev.ridx)
    /\ last' = ObsLast(Ev)
    /\ l' = l + 1 /\ UNCHANGED tid

(* the event is not a step of the design: report, adopt the observed state, go on *)
Resync ==
    LET e == Ev
        S == StoreOf(e.store)
        op == e.act.op
        r == ObsLast(e)
    IN /\ store' = S /\ ridx' = ToSet(e.ridx) /\ last' = r
       /\ delivered' = NoteDelivered(S)
       /\ act' = [op |-> op]
       /\ opened' = IF op \in {"Tamper", "ExtDelete"} THEN opened \cup {e.act.s} ELSE opened
       /\ gced' = IF op = "Gc" THEN gced \cup {e.act.s} ELSE gced
       /\ IF op = "TransferBegin" /\ r.op = "xstatus" /\ "exc" \notin DOMAIN r
          THEN /\ xs' = [src |-> e.act.src, dst |-> e.act.dst, req |-> ToSet(e.act.req), shallow |-> e.act.shallow,
                         F |-> ToSet(e.act.F), verify |-> e.act.verify, idx |-> e.act.idx /\ e.act.dst = IdxStore, sidx |-> e.act.idx /\ e.act.src = IdxStore,
                         new |-> r.new, missing |-> r.missing, ok |-> {}, pre |-> PresentSet(S, e.act.dst)]
               /\ ph' = IF r.new = {} THEN "idle" ELSE "run"
               /\ todo' = r.new \cap Dirs /\ loose' = r.new \cap Files
               /\ ResetXfer /\ nx' = nx + 1
          ELSE /\ ph' = IF op \in {"TransferEnd", "Abort"} THEN "idle" ELSE ph
               /\ failed' = IF r.op = "transfer" /\ "exc" \notin DOMAIN r THEN r.failed ELSE failed
               /\ nx' = nx
               /\ UNCHANGED <<xs, todo, cur, bound, curFails, pend, loose, okDirs, batch, lost, bk>>
       /\ UNCHANGED <<unfin, dev>>

Say(tag, prop, clause) == PrintT(<<tag, prop, clause, tid, l, dev'>>)

Fail == /\ Have /\ ~ENABLED Match
        /\ Resync
        /\ l' = l + 1 /\ UNCHANGED tid
        /\ Say("DIVERGENCE", "-", Ev.act.op)

(******************* the properties, on the observed step ********************)
\* the logged action record with JSON arrays turned into sets
ObsAct(e) ==
    LET a == e.act IN
    CASE a.op = "Status" -> [op |-> "Status", s |-> a.s, ids |-> ToSet(a.ids), shallow |-> a.shallow, idx |-> a.idx, ro |-> a.ro]
      [] a.op = "CompareStatus" -> [op |-> "CompareStatus", a |-> a.a, b |-> a.b, ids |-> ToSet(a.ids), shallow |-> a.shallow]
      [] a.op = "Gc" -> [op |-> "Gc", s |-> a.s, used |-> ToSet(a.used), foreign |-> ToSet(a.foreign), ord |-> a.ord, cs |-> a.cs, cro |-> a.cro,
                         shallow |-> a.shallow, dry |-> a.dry, ro |-> a.ro]
      [] a.op = "TransferBegin" -> [op |-> "TransferBegin", src |-> a.src, dst |-> a.dst, req |-> ToSet(a.req), shallow |-> a.shallow,
                                    F |-> ToSet(a.F), verify |-> a.verify, idx |-> a.idx]
      [] OTHER -> a

Judge ==
    LET e == Ev
        a == ObsAct(e)
        op == a.op
        L == last'
        S == store
        T == store'
    IN
    \* ---- every step -------------------------------------------------------
    /\ ((StoreDev(dev') = {} => \A s \in Stores : (s \notin opened' /\ Unclosed(s) \notin opened') => Closed(T, s))
            \/ Say("VERDICT", "C04", "Closed"))
    /\ (C12_IndexX(T, ridx', delivered', opened', gced') \/ Say("VERDICT", "C12", "Index"))
    /\ ((\A s \in Stores : s \notin opened' => \A o \in Oids : T[s][o] \in {Absent, "ok_u", "ok_p"})
            \/ Say("VERDICT", "C01", "Addressed"))
    /\ (e.aliens = <<>> \/ Say("VERDICT", "C01", "AlienObject"))
    \* an operation may refuse (a directory object it must read is not there, a read-only handle asked to write); it never
    \* ends in any other error - whichever property is being decided relies on the operation giving its answer
    /\ (("exc" \in DOMAIN L => L.exc \in {"FileNotFoundError", "ObjectDBPermissionError"})
            \/ Say("VERDICT", "*", "OperationEndedInUnexpectedError"))
    /\ ((ph' = "idle" => \A s \in Stores : (Local(s) /\ s \notin opened') =>
                \A o \in Oids : T[s][o] = "ok_u" => o \in unfin') \/ Say("VERDICT", "C01", "Protected"))
    /\ ((op \notin {"Tamper", "ExtDelete", "Gc"} => C07_IntactUnharmed(S, T)) \/ Say("VERDICT", "C07", "IntactUnharmed"))
    /\ ((op \in QueryOps => C07_NoBlessing(S, T)) \/ Say("VERDICT", "C07", "CorruptObjectBlessed"))
    \* ---- build + transfer out of a staging store: what it reports as moved is there afterwards, and so is all it was asked for
    /\ ((op \in {"AddObj", "AddMany"} /\ L.op = "add" /\ ~Refusal(L)) =>
          /\ ((\A o \in L.new : Present(T, a.s, o)) \/ Say("VERDICT", "C11", "Arrived"))
          /\ (LET X == IF op = "AddObj" THEN {a.x} ELSE ToSet(a.xs)
              IN (\A o \in X \cup ListsOf(X) : Present(T, a.s, o)) \/ Say("VERDICT", "C11", "AbsentReported")))
    \* ---- end of a transfer -------------------------------------------------
    /\ (op = "TransferEnd" /\ L.op = "transfer" /\ ~Refusal(L)) =>
         /\ (C11_Disjoint(L) \/ Say("VERDICT", "C11", "Disjoint"))
         /\ (C11_Partition(L) \/ Say("VERDICT", "C11", "Partition"))
         /\ ((xs.src \notin opened => C11_Arrived(L, T)) \/ Say("VERDICT", "C11", "Arrived"))
         /\ (C11_LocalSrcHonest(S, L, T) \/ Say("VERDICT", "C11", "MismatchingObjectHandedOn"))
         /\ (C11_LocalDstHonest(L, T) \/ Say("VERDICT", "C11", "MismatchingCopyTakenForPresent"))
         /\ ((xs.verify => \A o \in L.transferred : Intact(T, xs.dst, o)) \/ Say("VERDICT", "C11", "ArrivedVerified"))
         /\ (C11_AbsentReported(L, T) \/ Say("VERDICT", "C11", "AbsentReported"))
         /\ (C11_PresentUntouched(L) \/ Say("VERDICT", "C11", "PresentUntouched"))
         /\ (C12_SrcIndexCleared(L, ridx') \/ Say("VERDICT", "C12", "StaleIndexNotCleared"))
         /\ ((\A o \in Oids : Intact(S, xs.src, o) => Intact(T, xs.src, o)) \/ Say("VERDICT", "C11", "SourceUnmodified"))
         /\ ((StoreDev(dev') = {} => C04_Withheld(L, L.failed, okDirs', T, xs.dst)) \/ Say("VERDICT", "C04", "Withheld"))
         /\ ((dev' = {} => C04_Complete(L, T)) \/ Say("VERDICT", "C04", "RetryCompletes"))
         /\ ((xs.verify => \A o \in xs.new : T[xs.dst][o] \notin {"bad_u", "bad_p"}) \/ Say("VERDICT", "C07", "VerifyRetainsMismatch"))
         \* (C01: a tampered source excuses the destination of an ordinary transfer, not of a verifying one - once it has
         \* ended, nothing it brought is filed under a name that does not match)
         /\ ((xs.verify => \A o \in xs.new : T[xs.dst][o] \notin {"bad_u", "bad_p"}) \/ Say("VERDICT", "C01", "VerifiedTransferFiledMismatch"))
    \* an upload of something the destination already had (C11: not re-sent)
    /\ (op = "Put" => (a.x \notin xs.pre \/ Say("VERDICT", "C11", "Resent")))
    \* the source is never written during a transfer
    /\ (op \in {"Put", "Pick"} =>
            ((\A o \in Oids : S[xs.src][o] = T[xs.src][o]) \/ Say("VERDICT", "C11", "SourceTouched")))
    \* ---- status / compare_status ------------------------------------------------
    /\ (op = "Status" =>
          /\ (C12_StatusExact(S, a, L) \/ Say("VERDICT", "C12", "StatusExact"))
          /\ (C12_NoStaleDir(S, a, L) \/ Say("VERDICT", "C12", "StaleDirReported"))
          /\ ((~Refusal(L) => C12_StaleCleared(S, a.s, a.ids, a.idx, ridx')) \/ Say("VERDICT", "C12", "StaleIndexNotCleared"))
          /\ (C07_QueryDrops(S, T, a, L) \/ Say("VERDICT", "C07", "QueryKeepsCorrupt")))
    /\ (op = "CompareStatus" => (C12_Compare(S, a, L) \/ Say("VERDICT", "C12", "ComparePartition")))
    \* a transfer that ends without having shown its status to the caller (validate_status) has reported nothing: fine when
    \* nothing requested is missing on both sides, a silent loss otherwise
    /\ ((op = "TransferBegin" /\ "silent" \in DOMAIN e.last /\ Loadable(S, a.src, a.req, a.shallow)) =>
            (XStatus(S, ridx, a.src, a.dst, a.req, a.shallow, a.idx).missing = {} \/ Say("VERDICT", "C11", "MissingOnBothSidesNotReported")))
    /\ (op = "TransferBegin" =>
          /\ ((~Refusal(L) => C12_StaleCleared(S, a.dst, a.req, a.idx, ridx')) \/ Say("VERDICT", "C12", "StaleIndexNotCleared"))
          /\ (C12_XferNoStaleDir(S, a, L) \/ Say("VERDICT", "C12", "StaleDirReported"))
          /\ (C11_NoopAbsentReported(T, a, L, opened') \/ Say("VERDICT", "C11", "AbsentReported")))
    \* ---- gc -----------------------------------------------------------------
    /\ (op = "Gc" =>
          /\ (C06_UsedKept(S, T, a, L) \/ Say("VERDICT", "C06", "UsedRemoved"))
          /\ (C06_ReadOnly(S, T, a, L) \/ Say("VERDICT", "C06", "ReadOnlyNotRefused"))
          /\ (C06_Dry(S, T, a, L) \/ Say("VERDICT", "C06", "DryRunRemoved"))
          /\ (C06_Exact(S, T, a, L) \/ Say("VERDICT", "C06", "NotExact"))
          /\ (C06_Refusal(S, T, a, L) \/ Say("VERDICT", "C06", "RefusalRemoved")))
    \* ---- integrity check ------------------------------------------------------
    /\ (op = "Check" => (C07_Check(S, T, a, L) \/ Say("VERDICT", "C07", "Check")))

TraceNext == (Match \/ Fail) /\ Judge
TraceSpec == TraceInit /\ [][TraceNext]_allvars
=============================================================================
