SPECIFICATION TraceSpec
CONSTANTS
    Paths = {"f", "g", "d"}
    MaxSteps = 100000
