--------------------------- MODULE StorageMapTrace ---------------------------
(* [{smap: {prefix: {cache, remote}}, order: [prefix..], resolve: {entry: {cache, remote}},                      *)
(*   groups: {remote: {cache, objects: [..]}}, events: [{op, F, pushed, failed, remote: {r: [objs]}, cache: {c: [objs]}, data_ok}]}] *)
EXTENDS MC_StorageMap, Json, IOUtils
Recs == JsonDeserialize(IOEnv.TRACE_FILE)
VARIABLES i, l
allvars == <<vars, i, l>>
R == Recs[i]
Ev == R.events[l]
Have == l <= Len(R.events)
SetsOf(r, D) == [x \in D |-> IF x \in DOMAIN r THEN ToSet(r[x]) ELSE {}]
TraceInit ==
    /\ i \in 1..Len(Recs) /\ l = 1
    /\ smap = [p \in DOMAIN Recs[i].smap |-> [cache |-> Recs[i].smap[p].cache, remote |-> Recs[i].smap[p].remote]]
    /\ order = Recs[i].order
    /\ remote = [r \in Remotes |-> {}] /\ cache = [c \in Caches |-> Objects]
    /\ last = [op |-> "none"] /\ pc = "push" /\ dev = {} /\ act = [op |-> "Init"]
Step == \/ Ev.op = "Push" /\ Push(ToSet(Ev.F)) /\ remote' = SetsOf(Ev.remote, Remotes) /\ last'.pushed = Ev.pushed /\ last'.failed = Ev.failed
        \/ Ev.op = "Fetch" /\ Fetch /\ cache' = SetsOf(Ev.cache, Caches)
        \* (after the round: the root remote lost its objects, another index is pushed there - judged below, no design step)
        \/ Ev.op = "PushOther" /\ act' = [op |-> "PushOther"] /\ UNCHANGED <<smap, order, remote, cache, last, pc, dev>>
Match == Have /\ Step /\ l' = l + 1 /\ UNCHANGED i
Say(tag, clause) == PrintT(<<tag, "C18", clause, i, l, dev'>>)
Resync == /\ remote' = IF Ev.op = "Push" THEN SetsOf(Ev.remote, Remotes) ELSE remote
          /\ cache' = IF Ev.op = "Fetch" THEN SetsOf(Ev.cache, Caches) ELSE cache
          /\ last' = IF Ev.op = "Push" THEN [op |-> "push", pushed |-> Ev.pushed, failed |-> Ev.failed, moved |-> Ev.pushed + Ev.failed] ELSE [op |-> "fetch"]
          /\ pc' = IF Ev.op = "Fetch" THEN "done" ELSE IF pc = "push" THEN "retry" ELSE "fetch"
          /\ act' = [op |-> Ev.op] /\ UNCHANGED <<smap, order, dev>>
Fail == Have /\ ~ENABLED Match /\ Resync /\ l' = l + 1 /\ UNCHANGED i /\ Say("DIVERGENCE", Ev.op)
ObsResolve(k) == [cache |-> R.resolve[k].cache, remote |-> R.resolve[k].remote]
Judge ==
    /\ (l = 1 =>
          /\ ((\A k \in Entries : ObsResolve(k) = Resolve(k)) \/ Say("VERDICT", "ResolveNotLongestPrefixPerRole"))
          /\ ((DOMAIN R.groups = Groups /\ \A g \in Groups : R.groups[g].cache = GroupCache(g) /\ ToSet(R.groups[g].objects) = GroupObjects(g))
                \/ Say("DIVERGENCE", "collect")))
    \* counts: what was pushed or failed is what was new to its remote among what collect assigned
    /\ (Ev.op = "Push" =>
          LET before == remote
              after == remote'
              movedNow == {<<r, o>> \in Remotes \X Objects : o \in after[r] /\ o \notin before[r]}
          IN /\ (Ev.pushed = Cardinality(movedNow) \/ Say("VERDICT", "PushedCountWrong"))
             /\ ((ToSet(Ev.F) = {} => Ev.failed = 0) \/ Say("VERDICT", "FailureReportedWithoutFault")))
    \* after the clean retry every reachable object is in its designated remote
    \* pushing another index to a remote that lost what an earlier push had delivered uploads every object reachable from
    \* THAT index - whatever the remote's surviving index remembers about directories it was not asked about
    /\ (Ev.op = "PushOther" => (Ev.complete \/ Say("VERDICT", "OtherIndexPushIncomplete")))
    /\ ((Ev.op = "Push" /\ pc = "retry" /\ Pushable) => (C18_PushComplete(remote') \/ Say("VERDICT", "RetryDidNotComplete")))
    /\ ((Ev.op = "Fetch" /\ Pushable) =>
          /\ (C18_FetchExact(cache') \/ Say("VERDICT", "FetchNotExact"))
          /\ (Ev.data_ok \/ Say("VERDICT", "CheckoutFromFetchedCacheDiffers")))
TraceNext == (Match \/ Fail) /\ Judge
TraceSpec == TraceInit /\ [][TraceNext]_allvars
=============================================================================
