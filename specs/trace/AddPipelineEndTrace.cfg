SPECIFICATION Spec
CONSTANTS
    KnownDev = {}
INVARIANT Judge
