--------------------------- MODULE MC_IndexCheckout ---------------------------
EXTENDS IndexCheckout
PathsDef == {"p", "p/q", "p/q/r", "z"}
ParentDef == [x \in PathsDef |-> CASE x = "p/q" -> "p" [] x = "p/q/r" -> "p/q" [] OTHER -> ""]
DepthDef == [x \in PathsDef |-> CASE x = "p/q" -> 2 [] x = "p/q/r" -> 3 [] OTHER -> 1]
=============================================================================
