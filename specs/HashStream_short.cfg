\* short reads: every content of <= 3 units over 4 unit kinds, every sequence of (requested, returned) read sizes, both streams
SPECIFICATION Spec
CONSTANTS
    Kinds = {"T", "C", "R", "N"}
    MaxLen = 3
    ReadSizes = {2, 3}
    WindowUnits = 2
    Short = TRUE
INVARIANT Inv_PassThrough
INVARIANT Inv_Plain
INVARIANT Inv_Legacy
INVARIANT GenPrint
