\* random behaviours over every operation kind (used with -simulate for behaviour generation)
SPECIFICATION Spec
CONSTANTS
    Files <- FilesDef
    Dirs <- DirsDef
    Lists <- ListsDef
    Stores <- StoresDef
    Class <- ClassDef
    IdxStore = "remote"
    KnownDev = {}
    Ops = {"status", "cmpstatus", "tamper", "extdel", "add"}
    Requests <- ReqAll
    MaxFaults = 2
    MaxXfers = 6
    XferPairs <- BothPairs
    AddTargets <- StoresDef
    Modes <- AllModes
    InitStores <- InitAny
INVARIANT TypeOK
INVARIANT C04_Closed
INVARIANT Inv_C04_Withheld
INVARIANT Inv_C11
INVARIANT Inv_C12_Index
INVARIANT C01_Addressed
INVARIANT C01_Protected
