---------------------------- MODULE MC_TreeCanon ----------------------------
EXTENDS TreeCanon
PathsQ == {"a", "s/b", "s/c"}
SubDirsQ == {"s"}
UnderQ == [d \in SubDirsQ |-> {"s/b", "s/c"}]
PathsT == {"a", "b", "s/c", "s/t/d", "e"}
SubDirsT == {"s", "s/t"}
UnderT == [d \in SubDirsT |-> IF d = "s" THEN {"s/c", "s/t/d"} ELSE {"s/t/d"}]
=============================================================================
