\* one path, three contents (two of the same size), every history of <= 7 mutations / queries / injected rows / carry-overs
SPECIFICATION Spec
CONSTANTS
    Paths = {"p", "q", "r", "o"}
    StorePaths = {"o"}
    LinkPaths = {"r"}
    Contents = {"c1", "c2", "c3"}
    Size <- SizeDef
    Algs = {"md5"}
    MaxSteps = 14
INVARIANT Inv_NeverStale
INVARIANT Inv_RowsHonest
