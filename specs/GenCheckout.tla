----------------------------- MODULE GenCheckout -----------------------------
(* TLC writes the building blocks of checkout cases: prior workspaces, cache contents, targets. *)
EXTENDS MC_Checkout, Json, IOUtils
WsJ(w) == [kind |-> w.kind, files |-> [k \in {x \in AllKeys : w.files[x] # NoFile} |-> w.files[k]]]
TJ(t) == t
Out(_u) == [ws |-> {WsJ(w) : w \in WsAnyLink}, cache |-> CacheAny, targets |-> Targets]
ASSUME JsonSerialize(IOEnv.GEN_OUT, Out(0))
GenInit == Init
GenNext == UNCHANGED vars
=============================================================================
