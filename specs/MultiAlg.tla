------------------------------- MODULE MultiAlg -------------------------------
(***************************************************************************)
(* Stores of different hash algorithms sharing one hash-state database, and *)
(* the operations that (re)address content: staging + adding, index save,   *)
(* upload staging, migration to another algorithm (hashfile/build.py,       *)
(* hashfile/db/migrate.py, index/save.py, hashfile/state.py).  Property C01. *)
(*                                                                         *)
(* An object is a pair <<alg, c>>: content c filed under the digest that     *)
(* algorithm alg gives it.  Dig[alg][c] is that digest (abstract; two        *)
(* algorithms may or may not agree on a content - md5 and md5-dos2unix agree *)
(* exactly on content without CRLF).  store[s] is the set of <<name, c>>     *)
(* pairs in store s: name = the digest the file is filed under, c = what the *)
(* file holds.  The hash-state cache remembers, per workspace path, a digest *)
(* *and the algorithm it belongs to*.                                        *)
(***************************************************************************)
EXTENDS Naturals, FiniteSets, TLC

CONSTANTS Stores, LocalStores, AlgOf, Contents, Dig, Paths, OnePath, MaxSteps
\* LocalStores = the stores of the local class (they protect what they hold; the generic class does not);
\* AlgOf[s] = the algorithm of store s; Dig[a][c] = digest of c under a; Paths = workspace files (one directory);
\* OnePath = the file that is also added on its own (build() of a file rather than a directory)

VARIABLES ws, store, prot, row, saved, act, steps
vars == <<ws, store, prot, row, saved, act, steps>>
NoRow == [alg |-> "-", d |-> "-", c |-> "-"]
\* saved[s] = the digests the index last saved into store s recorded, per path ("-" = no such index yet)
NoSaved == [p \in Paths |-> "-"]

Tick == steps' = steps + 1 /\ steps < MaxSteps
\* the digest staging computes for workspace file p when asked for algorithm a: a cache hit needs the row to be
\* current (same content - C13) AND recorded for the requested algorithm
Staged(p, a) == IF row[p] # NoRow /\ row[p].c = ws[p] /\ row[p].alg = a THEN row[p].d ELSE Dig[a][ws[p]]

\* how = "rewrite": new inode and new mtime; "keep-mtime": a new inode carrying the old file's mtime (cp -p, rsync -t) -
\* with contents of equal size only the inode tells
Edit(p, c, how) ==
    /\ Tick /\ c # ws[p]
    /\ ws' = [ws EXCEPT ![p] = c]
    /\ row' = [row EXCEPT ![p] = NoRow]      \* either way the (inode, mtime, size) token changes: the row is dead (C13)
    /\ act' = [op |-> "Edit", p |-> p, c |-> c, how |-> how]
    /\ UNCHANGED <<store, prot, saved>>

\* store[s] is a set of <<name, content>> pairs with unique names: an object file that exists is never rewritten
Names(S) == {x[1] : x \in S}
\* first writer wins: for every name not yet present one of the candidate contents is filed (two workspace files
\* with the same digest under s's algorithm - a CRLF file and its LF twin under md5-dos2unix - race for the name)
AddPairs(s, cand) ==
    LET fresh == Names(cand) \ Names(store[s])
    IN \E f \in [fresh -> Contents] :
          /\ \A n \in fresh : <<n, f[n]>> \in cand
          /\ store' = [store EXCEPT ![s] = @ \cup {<<n, f[n]>> : n \in fresh}]
          /\ prot' = [prot EXCEPT ![s] = IF s \in LocalStores THEN @ \cup fresh ELSE @]

\* build(odb_s, workspace) + transfer(staging -> s): every file is filed under Staged(p, AlgOf[s]);
\* index.save does the same through hash_file(); upload staging hashes the bytes while it copies them (md5 stores
\* only) and does not consult the cache for the name; "file" stages the single file OnePath; "hardlink" is
\* directory staging transferred with hardlink=True (the object shares its inode with the workspace file)
Add(s, how) ==
    /\ Tick
    /\ how = "upload" => AlgOf[s] = "md5"
    /\ LET a == AlgOf[s]
           P == IF how = "file" THEN {OnePath} ELSE Paths
           nm(p) == IF how = "upload" THEN Dig[a][ws[p]] ELSE Staged(p, a)
       IN /\ AddPairs(s, {<<nm(p), ws[p]>> : p \in P})
          /\ row' = [p \in Paths |-> IF p \in P THEN [alg |-> a, d |-> Staged(p, a), c |-> ws[p]] ELSE row[p]]
          /\ saved' = IF how = "save" THEN [saved EXCEPT ![s] = [p \in Paths |-> Staged(p, a)]] ELSE saved
    /\ act' = [op |-> "Add", s |-> s, how |-> how]
    /\ UNCHANGED ws

\* the index saved into s EARLIER - with the digests it recorded then - is hashed again (index md5) and saved again, after
\* whatever was edited since: the files are re-hashed (no cheap checksum to go by on a local file system); an entry whose
\* file no longer has the recorded digest is left out; nothing is ever filed under a digest recorded for other bytes
Resave(s, t) ==
    /\ Tick /\ saved[s] # NoSaved /\ AlgOf[s] = AlgOf[t]        \* (saved again into s itself or into another store of its algorithm)
    /\ LET a == AlgOf[s]
           P == {p \in Paths : Staged(p, a) = saved[s][p]}
       IN /\ AddPairs(t, {<<Staged(p, a), ws[p]>> : p \in P})
          /\ row' = [p \in Paths |-> [alg |-> a, d |-> Staged(p, a), c |-> ws[p]]]
    /\ act' = [op |-> "Resave", s |-> s, t |-> t]
    /\ UNCHANGED <<ws, saved>>

\* migrate(prepare(s, t)): every object of s is re-hashed under t's algorithm and added to t under that digest
Migrate(s, t) ==
    /\ Tick /\ s # t
    /\ AddPairs(t, {<<Dig[AlgOf[t]][x[2]], x[2]>> : x \in store[s]})
    /\ act' = [op |-> "Migrate", s |-> s, t |-> t]
    /\ UNCHANGED <<ws, row, saved>>

Next ==
    \/ \E p \in Paths, c \in Contents, how \in {"rewrite", "keep-mtime"} : Edit(p, c, how)
    \/ \E s \in Stores, how \in {"stage", "save", "upload", "file", "hardlink"} : Add(s, how)
    \/ \E s \in Stores, t \in Stores : Migrate(s, t)
    \/ \E s \in Stores, t \in Stores : Resave(s, t)

Init == /\ ws \in [Paths -> Contents] /\ store = [s \in Stores |-> {}] /\ prot = [s \in Stores |-> {}]
        /\ row = [p \in Paths |-> NoRow] /\ saved = [s \in Stores |-> NoSaved] /\ act = [op |-> "Init"] /\ steps = 0
Spec == Init /\ [][Next]_vars

(******************************* C01 predicates *****************************)
\* S = the <<name, content>> pairs found in store s; every one is filed under the digest its store's algorithm gives it
C01_Addressed(s, S) == \A x \in S : x[1] = Dig[AlgOf[s]][x[2]]
C01_Protected(S, P) == \A x \in S : x[1] \in P
Inv_Addressed == \A s \in Stores : C01_Addressed(s, store[s])
Inv_UniqueNames == \A s \in Stores : \A x, y \in store[s] : x[1] = y[1] => x = y
Inv_Protected == \A s \in LocalStores : C01_Protected(store[s], prot[s])
=============================================================================
