------------------------------ MODULE HashStream ------------------------------
(***************************************************************************)
(* Hashing streams (hashfile/hash.py: HashStreamFile.read,                  *)
(* Dos2UnixHashStreamFile.read, fobj_md5, file_md5, hash_file;              *)
(* hashfile/istextfile.py: istextblock).  Property C14.                     *)
(*                                                                         *)
(* Content is a sequence of 256-byte units of a few kinds, so that two      *)
(* units are the 512-byte window the text/binary heuristic looks at:        *)
(*   "T" plain text          "C" text containing CRLF pairs                 *)
(*   "R" text ending in CR   "L" text starting with LF                      *)
(*   "N" starts with NUL bytes (binary)   "H" only high bytes (binary)      *)
(* Normalised variants: "c" (C with CRLF -> LF), "r" (R without its CR when  *)
(* the next unit of the same chunk starts with LF).                         *)
(* The hash is ideal (the identity on what was fed to the hasher), so        *)
(* "digest correct" is `fed = content` and chunking independence is          *)
(* independence of `fed` from the read sizes.                               *)
(***************************************************************************)
EXTENDS Naturals, Sequences, TLC

CONSTANTS Kinds, MaxLen, ReadSizes, Short, WindowUnits
\* Short = TRUE: the underlying file object may return fewer units than requested before the end of the data
\* (a raw stream, a pipe, a socket); the drivers must go on until a read returns nothing

\* WindowUnits = the units the 512-byte window of the text/binary heuristic covers: 2 with 256-byte units.  The file-level
\* entry points (file_md5, hash_file) read in blocks of 1 MiB whether or not progress is reported; they are modelled
\* with 32 KiB units (WindowUnits = 1, one read of 32 units), every unit uniform in kind
IsText(k) == k \in {"T", "C", "R", "L", "c", "r"}
WindowW(chunk, w) == SubSeq(chunk, 1, IF Len(chunk) < w THEN Len(chunk) ELSE w)
\* istextblock(chunk[:512]); an empty chunk is not looked at
TextChunkW(chunk, w) == \A i \in DOMAIN WindowW(chunk, w) : IsText(WindowW(chunk, w)[i])
Window(chunk) == WindowW(chunk, WindowUnits)
TextChunk(chunk) == TextChunkW(chunk, WindowUnits)
\* dos2unix(chunk) = chunk.replace("\r\n", "\n")
NormChunk(chunk) ==
    [i \in DOMAIN chunk |->
        IF chunk[i] = "C" THEN "c"
        ELSE IF chunk[i] = "R" /\ i < Len(chunk) /\ chunk[i + 1] = "L" THEN "r"
        ELSE chunk[i]]
\* what one read() of the legacy stream feeds to the hasher
LegacyFed(chunk) == IF chunk # <<>> /\ TextChunk(chunk) THEN NormChunk(chunk) ELSE chunk

VARIABLES content, stream, pos, fed, out, count, nreads, hist
vars == <<content, stream, pos, fed, out, count, nreads, hist>>

Contents == UNION {[1..n -> Kinds] : n \in 0..MaxLen}
Init == /\ content \in Contents /\ stream \in {"plain", "legacy"}
        /\ pos = 0 /\ fed = <<>> /\ out = <<>> /\ count = 0 /\ nreads = 0 /\ hist = <<>>

\* read(n): n units requested (the legacy stream asserts n >= 512 bytes = 2 units); the source hands over k <= n
Read(n, k) ==
    /\ pos < Len(content) \/ nreads = 0          \* the loop stops at the first empty read
    /\ stream = "legacy" => n >= WindowUnits
    /\ LET hi == IF pos + k > Len(content) THEN Len(content) ELSE pos + k
           chunk == SubSeq(content, pos + 1, hi)
           data == IF stream = "legacy" THEN LegacyFed(chunk) ELSE chunk
       IN /\ pos' = hi
          /\ fed' = fed \o data
          /\ out' = out \o chunk                \* the caller always gets the raw bytes
          /\ count' = count + Len(data)         \* total_read counts what was hashed
    /\ nreads' = nreads + 1 /\ hist' = Append(hist, <<n, k>>)
    /\ UNCHANGED <<content, stream>>
Next == \E n \in ReadSizes : \E k \in (IF Short THEN 1..n ELSE {n}) : Read(n, k)
Spec == Init /\ [][Next]_vars
AtEOF == pos = Len(content) /\ nreads > 0

(******************************* C14 predicates *****************************)
\* evaluated on (content, what was fed, what was handed on, the count) - modelled or observed
C14_PassThrough(c, o) == o = c
\* the digest can be asked for at any moment: it is the digest of what has been fed so far (in the model `fed` itself),
\* so asking early can neither be wrong nor influence what is reported at the end
C14_SoFar(f, digestInput) == digestInput = f
C14_PlainDigest(c, f) == f = c
C14_PlainCount(c, n) == n = Len(c)
\* legacy stream, whole file in one read: text is normalised (so CRLF and LF variants agree),
\* binary is hashed untouched
C14_LegacyOneRead(c, f) == f = (IF c # <<>> /\ TextChunk(c) THEN NormChunk(c) ELSE c)
LFVariant(c) == NormChunk(c)
C14_LegacyVariantsAgree(c) ==
    (c # <<>> /\ TextChunk(c)) => LegacyFed(LFVariant(c)) = LegacyFed(c)

Inv_PassThrough == \A i \in DOMAIN out : out[i] = content[i]
Inv_Plain == (AtEOF /\ stream = "plain") =>
                /\ C14_PassThrough(content, out) /\ C14_PlainDigest(content, fed) /\ C14_PlainCount(content, count)
Inv_Legacy == (AtEOF /\ stream = "legacy") =>
                /\ C14_PassThrough(content, out)
                /\ ((nreads = 1 /\ hist[1][2] >= Len(content)) => C14_LegacyOneRead(content, fed))
                /\ C14_LegacyVariantsAgree(content)
\* behaviour generation: every complete read sequence with what the hasher must have been fed
GenPrint == AtEOF => PrintT(<<"CASE", stream, content, hist, fed>>)
=============================================================================
