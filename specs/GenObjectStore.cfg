INIT GenInit
NEXT GenNext
CONSTANTS
    Files <- FilesDef
    Dirs <- DirsDef
    Lists <- ListsDef
    Stores <- StoresDef
    Class <- ClassDef
    IdxStore = "remote"
    KnownDev = {}
    Ops = {}
    Requests = {}
    MaxFaults = 0
    MaxXfers = 0
    XferPairs = {}
    AddTargets = {}
    Modes = {}
    InitStores = {}
