----------------------------- MODULE ObjectStore -----------------------------
(***************************************************************************)
(* Content-addressed object stores of dvc-data and the operations between  *)
(* them: adding staged data, transfer (unrolled to one step per upload),   *)
(* status / compare_status (with and without the remote index), integrity  *)
(* check, garbage collection, external tampering and deletion.             *)
(*                                                                         *)
(* Code modelled: hashfile/db/__init__.py (HashFileDB.add/check),          *)
(* hashfile/db/local.py (LocalHashFileDB.check/oids_exist/protect),        *)
(* hashfile/status.py, hashfile/transfer.py, hashfile/gc.py,               *)
(* hashfile/db/index.py, dvc_objects/db.py (ObjectDB.add/oids_exist).      *)
(*                                                                         *)
(* Properties: C01 C04 C06 C07 C11 C12 (predicates at the end).            *)
(*                                                                         *)
(* Abstract state of one object in one store:                              *)
(*   "none"  absent                                                        *)
(*   "ok_u"  bytes match the name, not write-protected                     *)
(*   "ok_p"  bytes match the name, mode exactly 0o444 (local stores only)   *)
(*   "bad_u" bytes do not match the name, not write-protected              *)
(*   "bad_p" bytes do not match the name, mode 0o444 (trusted by the code)  *)
(***************************************************************************)
EXTENDS Naturals, FiniteSets, Sequences, TLC

CONSTANTS
    Files,      \* file object ids
    Dirs,       \* directory object ids
    Lists,      \* Lists[d] \subseteq Files : what directory object d lists
    Stores,     \* store ids
    Class,      \* Class[s] \in {"local", "generic"}
    IdxStore,   \* the store that has a remote index attached ("none" if none)
    KnownDev,   \* open known findings modelled as deviation branches
    Ops,        \* which operation kinds Next may take (per config)
    Requests,   \* request sets offered to Transfer/Status/Gc in exhaustive runs
    MaxFaults,  \* bound on |F| in exhaustive runs
    MaxXfers,   \* bound on the number of transfers per behaviour (those after the first are fault free)
    XferPairs,  \* <<src, dst>> pairs offered to Transfer in exhaustive runs
    AddTargets, \* stores AddObj may fill
    Modes,      \* <<shallow, useIdx>> pairs offered in exhaustive runs
    InitStores  \* initial store contents

Oids == Files \cup Dirs
Absent == "none"
None == "-"

VARIABLES
    store,      \* store[s][o] \in {"none","ok_u","ok_p","bad_u","bad_p"}
    ridx,       \* set of oids held by the remote index of IdxStore
    delivered,  \* history: delivered[s] = oids ever observed present in s
    opened,     \* history: stores touched by tampering / external deletion / shallow gc
    gced,       \* history: stores from which gc removed something
    unfin,      \* history: local objects whose protection was cut short by an abort
    dev,        \* ghost: known-finding deviations taken
    nx,         \* history: number of transfers begun
    act,        \* last action with its arguments (behaviour generation / traces)
    last,       \* result of the last completed operation
    \* ---- transfer in progress (transfer.py:_do_transfer unrolled) ----
    ph,         \* "idle" | "run"
    xs,         \* static part: [src, dst, req, shallow, F, verify, idx, new, missing, pre]
    todo,       \* directory ids of `new` not yet picked
    cur,        \* directory being processed or "-"
    bound,      \* files claimed by cur, not yet uploaded
    curFails,   \* uploads of cur's claimed files that failed
    pend,       \* directory object whose upload is due or "-"
    loose,      \* file ids of `new` not yet claimed / uploaded
    failed,     \* failed_ids
    okDirs,     \* succeeded_dir_objs
    batch,      \* objects uploaded by the current dest.add() batch, protected when it returns
    lost,       \* uploaded objects that the verifying epilogue of add() found corrupt and removed
    bk          \* which dest.add() call `batch` belongs to: "none" | "bound" | "dir" | "loose"

tvars == <<ph, xs, todo, cur, bound, curFails, pend, loose, failed, okDirs, batch, lost, bk>>
hvars == <<delivered, opened, gced, unfin, dev, nx>>
vars  == <<store, ridx, hvars, act, last, tvars>>
view  == <<store, ridx, hvars, last, tvars>>

(******************************** helpers **********************************)
Present(S, s, o) == S[s][o] # Absent
Intact(S, s, o)  == S[s][o] \in {"ok_u", "ok_p"}
PresentSet(S, s) == {o \in Oids : Present(S, s, o)}
ListsOf(ds)      == UNION {Lists[d] : d \in ds \cap Dirs}
Expand(ids, shallow) == IF shallow THEN ids ELSE ids \cup ListsOf(ids)
Closed(S, s)     == \A d \in Dirs : Present(S, s, d) => \A f \in Lists[d] : Present(S, s, f)
Unclosed(s)      == "unclosed:" \o s
ClosedRequest(req, shallow) == ~shallow \/ \A d \in req \cap Dirs : Lists[d] \subseteq req
Local(s)         == Class[s] = "local"

\* oids_exist(): LocalHashFileDB runs check() on each id (a 0o444 object is
\* trusted, anything else is re-hashed: a mismatch is deleted, a match is
\* protected); the base class only asks the file system.
ExistsQ(S, s, ids) ==
    IF Local(s) THEN {o \in ids : S[s][o] \in {"ok_u", "ok_p", "bad_p"}}
                ELSE {o \in ids : Present(S, s, o)}
AfterQ(S, s, ids) ==
    IF Local(s)
    THEN [S EXCEPT ![s] = [o \in Oids |->
            IF o \in ids THEN (CASE S[s][o] = "bad_u" -> Absent
                                 [] S[s][o] = "ok_u"  -> "ok_p"
                                 [] OTHER -> S[s][o])
            ELSE S[s][o]]]
    ELSE S

\* status() without index
StatusPlain(S, R, s, ids, shallow) ==
    LET hashes == Expand(ids, shallow)
        ex == ExistsQ(S, s, hashes)
    IN [exists |-> ex, missing |-> hashes \ ex, S |-> AfterQ(S, s, hashes), R |-> R]

\* status() with the remote index (status.py:_indexed_dir_hashes + index.intersection);
\* trees of directories found in the store are loaded from `tsrc` when the query is shallow
StatusIdx(S, R, s, ids, shallow, tsrc) ==
    LET hashes  == Expand(ids, shallow)
        dirQ    == ids \cap Dirs
        idxDirs == R \cap Dirs
        idxDirsExist == {d \in idxDirs : Present(S, s, d)}
        R1      == IF idxDirs \ idxDirsExist # {} THEN {} ELSE R      \* stale index cleared
        dirEx   == {d \in dirQ : Present(S, s, d)}
        loadable == {d \in dirEx : ~shallow \/ Present(S, tsrc, d)}
        R2      == R1 \cup UNION {{d} \cup Lists[d] : d \in {x \in loadable : x \notin R1}}
        ex1     == hashes \cap UNION {{d} \cup Lists[d] : d \in loadable}
        ex2     == (hashes \ ex1) \cap R2
        rem     == (hashes \ ex1) \ ex2
        ex3     == ExistsQ(S, s, rem)
    IN  IF dirQ = {}
        THEN LET e2 == hashes \cap R
                 r2 == hashes \ e2
             IN [exists |-> e2 \cup ExistsQ(S, s, r2), missing |-> r2 \ ExistsQ(S, s, r2),
                 S |-> AfterQ(S, s, r2), R |-> R]
        ELSE [exists |-> ex1 \cup ex2 \cup ex3, missing |-> rem \ ex3, S |-> AfterQ(S, s, rem), R |-> R2]

StatusOf(S, R, s, ids, shallow, useIdx, tsrc) ==
    IF useIdx /\ s = IdxStore /\ Expand(ids, shallow) # {}
    THEN StatusIdx(S, R, s, ids, shallow, tsrc)
    ELSE StatusPlain(S, R, s, ids, shallow)

\* trees that an expanding query has to load must be there (else the call raises
\* FileNotFoundError before doing anything: a refusal, not a result)
Loadable(S, s, ids, shallow) == shallow \/ \A d \in ids \cap Dirs : Present(S, s, d)

\* state of an object right after it was written into store s from a source in state st
Written(st) == IF st \in {"ok_u", "ok_p"} THEN "ok_u" ELSE "bad_u"
\* HashFileDB.add() epilogue for one uploaded object (verify -> check, then protect)
Sealed(s, st, verify) ==
    IF verify /\ st = "bad_u" THEN Absent
    ELSE IF Local(s) THEN (IF st = "ok_u" THEN "ok_p" ELSE IF st = "bad_u" THEN "bad_p" ELSE st)
    ELSE st
SealBatch(S, s, b, verify) ==
    [S EXCEPT ![s] = [o \in Oids |-> IF o \in b /\ Present(S, s, o) THEN Sealed(s, S[s][o], verify) ELSE S[s][o]]]

NoteDelivered(S) == [s \in Stores |-> delivered[s] \cup PresentSet(S, s)]
Idle == ph = "idle"
NoXfer == UNCHANGED tvars

(******************************** operations *******************************)
\* build() into staging followed by transfer(staging -> s) of object x and, for a
\* directory, everything it lists (the way `dvc add` fills a cache); fault free.
AddCore(s, X, a) ==
    /\ Idle /\ "add" \in Ops
    /\ LET ids == X \cup ListsOf(X)
           q   == StatusPlain(store, ridx, s, ids, TRUE)
           new == ids \ q.exists
           S1  == q.S
           S2  == [S1 EXCEPT ![s] = [o \in Oids |-> IF o \in new THEN (IF Local(s) THEN "ok_p" ELSE "ok_u") ELSE S1[s][o]]]
       IN /\ store' = S2
          /\ delivered' = NoteDelivered(S2)
          /\ last' = [op |-> "add", new |-> new]
    /\ act' = a
    /\ UNCHANGED <<ridx, opened, gced, unfin, dev, nx>> /\ NoXfer
AddObj(s, x) == AddCore(s, {x}, [op |-> "AddObj", s |-> s, x |-> x])
\* several workspace items - on whatever file systems they live - staged into ONE reference store (a staging store only
\* holds references: a file listed by two of the items is referenced where it was staged last) and moved together
AddMany(s, X) == AddCore(s, X, [op |-> "AddMany", s |-> s, xs |-> X])

\* ANOTHER remote of the same project records a push in ITS index - which lives under the same temporary directory as the
\* index of IdxStore (the normal .dvc/tmp layout), under its own name: this store's index does not care
IndexElsewhere(X) ==
    /\ Idle /\ "status" \in Ops /\ IdxStore \in Stores
    /\ act' = [op |-> "IndexElsewhere", xs |-> X]
    /\ last' = [op |-> "elsewhere"]
    /\ UNCHANGED <<store, ridx, delivered, opened, gced, unfin, dev, nx>> /\ NoXfer

\* user edits an object in place (after making it writable): bytes no longer match
Tamper(s, o) ==
    /\ Idle /\ "tamper" \in Ops
    \* (a directory object is edited so that it still parses to the same listing - trailing white space: its name no
    \* longer matches its bytes, what it says is unchanged)
    /\ o \in Oids /\ Present(store, s, o)
    /\ store' = [store EXCEPT ![s][o] = "bad_u"]
    /\ opened' = opened \cup {s} /\ UNCHANGED gced
    /\ act' = [op |-> "Tamper", s |-> s, o |-> o]
    /\ last' = [op |-> "tamper"]
    /\ UNCHANGED <<ridx, delivered, unfin, dev, nx>> /\ NoXfer

ExtDelete(s, o) ==
    /\ Idle /\ "extdel" \in Ops
    /\ Present(store, s, o)
    /\ store' = [store EXCEPT ![s][o] = Absent]
    \* (a deletion that leaves every present directory object with its files - a whole directory gone, the directory
    \* object first - does not break the store's closure: later operations are still held to it)
    /\ opened' = IF Closed([store EXCEPT ![s][o] = Absent], s) THEN opened ELSE opened \cup {s}
    /\ UNCHANGED gced
    /\ act' = [op |-> "ExtDelete", s |-> s, o |-> o]
    /\ last' = [op |-> "extdel"]
    /\ UNCHANGED <<ridx, delivered, unfin, dev, nx>> /\ NoXfer

\* odb.check(oid); ro = the store handle was opened read-only (that restricts adding, not integrity checking)
CheckRes(S, s, o) ==
    CASE S[s][o] = Absent -> "FileNotFoundError"
      [] S[s][o] = "bad_u" -> "ObjectFormatError"
      [] OTHER -> "ok"
Check(s, o, ro) ==
    /\ Idle /\ "check" \in Ops
    /\ store' = [store EXCEPT ![s][o] =
                    CASE @ = "bad_u" -> Absent
                      [] @ = "ok_u" /\ Local(s) -> "ok_p"
                      [] OTHER -> @]
    /\ last' = [op |-> "check", res |-> CheckRes(store, s, o)]
    /\ act' = [op |-> "Check", s |-> s, o |-> o, ro |-> ro]
    /\ UNCHANGED <<ridx, hvars>> /\ NoXfer

\* status(odb, ids, index?, shallow); an expanding query whose trees cannot be loaded
\* raises FileNotFoundError before asking the store anything
Refused(opname) == [op |-> opname, exc |-> "FileNotFoundError"]
Status(s, ids, shallow, useIdx, ro) ==
    /\ Idle /\ "status" \in Ops
    /\ IF ~Loadable(store, s, ids, shallow)
       THEN /\ last' = Refused("status") /\ UNCHANGED <<store, ridx>>
       ELSE LET q == StatusOf(store, ridx, s, ids, shallow, useIdx, s)
            IN /\ store' = q.S /\ ridx' = q.R
               /\ last' = [op |-> "status", exists |-> q.exists, missing |-> q.missing]
    /\ act' = [op |-> "Status", s |-> s, ids |-> ids, shallow |-> shallow, idx |-> useIdx, ro |-> ro]
    /\ UNCHANGED hvars /\ NoXfer

\* compare_status(src, dst, ids, check_deleted=True): dst is asked first (trees from src), then src
CompareStatus(a, b, ids, shallow) ==
    /\ Idle /\ "cmpstatus" \in Ops /\ a # b
    /\ IF ~Loadable(store, a, ids, shallow)
       THEN /\ last' = Refused("cmpstatus") /\ UNCHANGED store
       ELSE LET qb == StatusPlain(store, ridx, b, ids, shallow)
                qa == StatusPlain(qb.S, ridx, a, ids, shallow)
            IN /\ store' = qa.S
               /\ last' = [op |-> "cmpstatus",
                           ok |-> qa.exists \cap qb.exists, missing |-> qa.missing \cap qb.missing,
                           new |-> qa.exists \ qb.exists, deleted |-> qb.exists \ qa.exists]
    /\ act' = [op |-> "CompareStatus", a |-> a, b |-> b, ids |-> ids, shallow |-> shallow]
    /\ UNCHANGED <<ridx, hvars>> /\ NoXfer

\* gc(odb, used, shallow, dry); `foreign` = ids passed under another hash name (the same values may also be passed
\* under the store's own name), `ord` = where they stand in the used collection, `ro` = read-only handle;
\* cs = the store whose handle is passed as cache_odb (the trees of used directories are loaded from it; cs = s: none
\* passed), cro = that handle is read-only - which is nobody's business: only the store being collected must be writable
GcKeep(used, shallow) == used \cup (IF shallow THEN {} ELSE ListsOf(used))
Gc(s, used, foreign, ord, shallow, dry, ro, cs, cro) ==
    /\ Idle /\ "gc" \in Ops
    /\ LET loadable == shallow \/ \A d \in used \cap Dirs : Present(store, cs, d)
           removed  == PresentSet(store, s) \ GcKeep(used, shallow)
       IN IF ro THEN /\ last' = [op |-> "gc", exc |-> "ObjectDBPermissionError"]
                     /\ UNCHANGED <<store, opened, gced>>
          ELSE IF ~loadable THEN /\ last' = [op |-> "gc", exc |-> "FileNotFoundError"]
                                 /\ UNCHANGED <<store, opened, gced>>
          ELSE /\ last' = [op |-> "gc", removed |-> Cardinality(removed)]
               /\ store' = IF dry THEN store
                           ELSE [store EXCEPT ![s] = [o \in Oids |-> IF o \in removed THEN Absent ELSE @[o]]]
               /\ opened' = IF ~dry /\ shallow /\ used \cap Dirs # {} THEN opened \cup {s} ELSE opened
               /\ gced' = IF ~dry /\ removed # {} THEN gced \cup {s} ELSE gced
    /\ act' = [op |-> "Gc", s |-> s, used |-> used, foreign |-> foreign, ord |-> ord, shallow |-> shallow, dry |-> dry, ro |-> ro, cs |-> cs, cro |-> cro]
    /\ UNCHANGED <<ridx, delivered, unfin, dev, nx>> /\ NoXfer

(************************** transfer, step by step *************************)
\* transfer(src, dst, req, shallow, verify, dest_index?) up to and including
\* compare_status(check_deleted=False); F = uploads that will fail
XStatus(S, R, src, dst, req, shallow, useIdx) ==
    LET qd == StatusOf(S, R, dst, req, shallow, useIdx, src)
        \* (the source is asked through the same index when it is the indexed store - transfer(src_index=...), a fetch)
        qs == IF qd.missing # {} THEN StatusOf(qd.S, qd.R, src, req, shallow, useIdx, src)
              ELSE [exists |-> qd.exists, missing |-> {}, S |-> qd.S, R |-> qd.R]
    IN [new |-> qs.exists \ qd.exists, missing |-> qs.missing \cap qd.missing,
        ok |-> qs.exists \cap qd.exists, S |-> qs.S, R |-> qs.R]
ResetXfer == /\ cur' = None /\ bound' = {} /\ curFails' = {} /\ pend' = None /\ failed' = {}
             /\ okDirs' = {} /\ batch' = {} /\ lost' = {} /\ bk' = "none"
TransferBegin(src, dst, req, shallow, F, verify, useIdx) ==
    /\ Idle /\ "transfer" \in Ops /\ src # dst
    /\ IF ~Loadable(store, src, req, shallow)
       THEN /\ last' = Refused("xstatus")
            /\ UNCHANGED <<store, ridx, ph, xs, todo, loose, opened>>
       ELSE LET q == XStatus(store, ridx, src, dst, req, shallow, useIdx)
            IN /\ store' = q.S /\ ridx' = q.R
               /\ xs' = [src |-> src, dst |-> dst, req |-> req, shallow |-> shallow, F |-> F, verify |-> verify,
                         idx |-> useIdx /\ dst = IdxStore, sidx |-> useIdx /\ src = IdxStore, new |-> q.new, missing |-> q.missing,
                         ok |-> q.ok, pre |-> PresentSet(q.S, dst)]
               /\ last' = [op |-> "xstatus", new |-> q.new, missing |-> q.missing]
               /\ opened' = (IF src \in opened THEN opened \cup {dst} ELSE opened)
                             \cup (IF Unclosed(src) \in opened /\ ~ClosedRequest(req, shallow) THEN {Unclosed(dst)} ELSE {})
               /\ IF q.new = {}
                  THEN /\ ph' = "idle" /\ todo' = {} /\ loose' = {}
                  ELSE /\ ph' = "run" /\ todo' = q.new \cap Dirs /\ loose' = q.new \cap Files
    /\ ResetXfer
    /\ act' = [op |-> "TransferBegin", src |-> src, dst |-> dst, req |-> req, shallow |-> shallow, F |-> F,
               verify |-> verify, idx |-> useIdx]
    /\ nx' = nx + 1
    /\ UNCHANGED <<delivered, gced, unfin, dev>>

\* the decision on directory d once all files it claimed were attempted.
\* Intended rule (and the code after the F1 repair): withhold the directory object
\* when any file it lists failed in this transfer - also one claimed by another
\* directory.  F1 (while open): only failures among the claimed files count.
\* F5 (open): a directory listing a file that is missing on both sides is skipped
\* without being reported as failed.
ListedFailure(d, fl) == Lists[d] \cap fl # {}
Decision(d, cf, fl) ==
    IF cf # {} THEN [failed |-> fl \cup cf \cup {d}, pend |-> None, dev |-> {}]
    ELSE IF ListedFailure(d, fl) /\ "F1" \notin KnownDev THEN [failed |-> fl \cup {d}, pend |-> None, dev |-> {}]
    ELSE IF Lists[d] \cap xs.missing # {}
         \* (the finding is about files that are REALLY on neither side; a `missing` set that holds anything else is not it)
         THEN [failed |-> fl, pend |-> None,
               dev |-> IF "F5" \in KnownDev /\ \E f \in Lists[d] \cap xs.missing : ~Present(store, xs.src, f) /\ ~Present(store, xs.dst, f)
                       THEN {"F5"} ELSE {}]
    ELSE [failed |-> fl, pend |-> d, dev |-> IF ListedFailure(d, fl) THEN {"F1"} ELSE {}]

\* The batch handed to the previous dest.add() has returned: its epilogue verifies
\* (when asked to) and protects what was uploaded.  The harness observes the store
\* inside each upload, so the effect of the epilogue becomes visible with the next
\* event: every action that starts a new batch first seals the previous one.
\* A mismatching object is removed by the verifying epilogue without being counted
\* as a failure (F6, open: it stays reported as transferred).
SealedStore == SealBatch(store, xs.dst, batch, xs.verify)
LostNow == {o \in batch : Present(store, xs.dst, o) /\ ~Present(SealedStore, xs.dst, o)}
DevAfterSeal == IF "F6" \in KnownDev /\ LostNow # {} THEN {"F6"} ELSE {}

\* `for dir_hash in dir_ids:` - next directory, claims the not yet claimed files it lists
Pick(d) ==
    /\ ph = "run" /\ cur = None /\ pend = None /\ d \in todo
    /\ todo' = todo \ {d}
    /\ LET b == loose \cap Lists[d]
       IN /\ loose' = loose \ Lists[d]
          /\ store' = SealedStore /\ batch' = {} /\ bk' = "bound" /\ lost' = lost \cup LostNow
          /\ IF b # {} THEN /\ cur' = d /\ bound' = b /\ curFails' = {}
                            /\ dev' = dev \cup DevAfterSeal
                            /\ UNCHANGED <<pend, failed>>
             ELSE LET dc == Decision(d, {}, failed)
                  IN /\ bound' = {} /\ curFails' = {}
                     /\ failed' = dc.failed /\ pend' = dc.pend /\ dev' = dev \cup dc.dev \cup DevAfterSeal
                     /\ cur' = IF dc.pend = None THEN None ELSE d
    /\ act' = [op |-> "Pick", d |-> d]
    /\ last' = [op |-> "pick"]
    /\ UNCHANGED <<ridx, delivered, opened, gced, unfin, nx, xs, okDirs, ph>>

\* one upload (fs.put_file of one object); fails iff the object is in F
\* an upload fails when a fault is injected for it - or when the source does not hold the object after all (a stale
\* source index had promised it)
PutRes(x) == IF x \in xs.F \/ ~Present(store, xs.src, x) THEN "fail" ELSE "ok"
WriteObj(S, x) == [S EXCEPT ![xs.dst][x] = Written(S[xs.src][x])]

PutBound(x) ==
    /\ ph = "run" /\ cur # None /\ x \in bound
    /\ LET ok == PutRes(x) = "ok"
           cf == IF ok THEN curFails ELSE curFails \cup {x}
           S1 == IF ok THEN WriteObj(store, x) ELSE store
       IN /\ store' = S1
          /\ delivered' = NoteDelivered(S1)
          /\ batch' = IF ok THEN batch \cup {x} ELSE batch
          /\ bound' = bound \ {x}
          /\ IF bound \ {x} = {}
             THEN LET dc == Decision(cur, cf, failed)
                  IN /\ failed' = dc.failed /\ pend' = dc.pend /\ dev' = dev \cup dc.dev
                     /\ cur' = IF dc.pend = None THEN None ELSE cur
                     /\ curFails' = {}
             ELSE /\ curFails' = cf /\ UNCHANGED <<failed, pend, dev, cur>>
    /\ act' = [op |-> "Put", x |-> x, res |-> PutRes(x)]
    /\ last' = [op |-> "put"]
    /\ UNCHANGED <<ridx, opened, gced, unfin, nx, xs, todo, loose, okDirs, ph, lost, bk>>

PutDir(x) ==
    /\ ph = "run" /\ pend = x /\ x # None
    /\ LET ok == PutRes(x) = "ok"
           S0 == SealedStore
           S1 == IF ok THEN WriteObj(S0, x) ELSE S0
       IN /\ store' = S1
          /\ delivered' = NoteDelivered(S1)
          /\ batch' = IF ok THEN {x} ELSE {}
          /\ okDirs' = IF ok THEN okDirs \cup {x} ELSE okDirs
          /\ failed' = IF ok THEN failed ELSE failed \cup {x}
    /\ lost' = lost \cup LostNow /\ dev' = dev \cup DevAfterSeal /\ bk' = "dir"
    /\ pend' = None /\ cur' = None
    /\ act' = [op |-> "Put", x |-> x, res |-> PutRes(x)]
    /\ last' = [op |-> "put"]
    /\ UNCHANGED <<ridx, opened, gced, unfin, nx, xs, todo, bound, curFails, loose, ph>>

\* `failed_ids.update(_add(src, dest, file_ids))` - the files no directory claimed
LooseReady == ph = "run" /\ todo = {} /\ cur = None /\ pend = None
PutLoose(x) ==
    /\ LooseReady /\ x \in loose
    /\ LET ok == PutRes(x) = "ok"
           sealNow == bk # "loose"
           S0 == IF sealNow THEN SealedStore ELSE store
           b0 == IF sealNow THEN {} ELSE batch
           S1 == IF ok THEN WriteObj(S0, x) ELSE S0
       IN /\ store' = S1
          /\ delivered' = NoteDelivered(S1)
          /\ batch' = IF ok THEN b0 \cup {x} ELSE b0
          /\ failed' = IF ok THEN failed ELSE failed \cup {x}
          /\ lost' = IF sealNow THEN lost \cup LostNow ELSE lost
          /\ dev' = IF sealNow THEN dev \cup DevAfterSeal ELSE dev
    /\ bk' = "loose"
    /\ loose' = loose \ {x}
    /\ act' = [op |-> "Put", x |-> x, res |-> PutRes(x)]
    /\ last' = [op |-> "put"]
    /\ UNCHANGED <<ridx, opened, gced, unfin, nx, xs, todo, cur, bound, curFails, pend, okDirs, ph>>

\* _do_transfer returns; transfer() builds TransferResult(status.new - failed, failed)
TransferEnd ==
    /\ LooseReady /\ loose = {}
    /\ LET S1 == SealedStore
       IN /\ store' = S1
          /\ delivered' = NoteDelivered(S1)
          /\ lost' = lost \cup LostNow
          /\ dev' = dev \cup DevAfterSeal
    \* a transfer with failures clears the SOURCE's index (it promised something that could not be read)
    /\ ridx' = IF failed = {} /\ xs.idx THEN ridx \cup okDirs \cup ListsOf(okDirs)
               ELSE IF failed # {} /\ xs.sidx THEN {} ELSE ridx
    /\ last' = [op |-> "transfer", transferred |-> xs.new \ failed, failed |-> failed]
    /\ ph' = "idle" /\ batch' = {} /\ bk' = "none"
    /\ act' = [op |-> "TransferEnd"]
    /\ UNCHANGED <<opened, gced, unfin, nx, xs, todo, cur, bound, curFails, pend, loose, failed, okDirs>>

\* the process dies (or an exception unwinds the transfer) at this point.  When the
\* current batch is complete the kill may fall before or after add()'s epilogue
\* (verify / protect), otherwise the uploaded objects of the batch stay unprotected.
BatchComplete ==
    /\ batch # {}
    /\ \/ (bk = "bound" /\ bound = {})
       \/ bk = "dir"
       \/ (bk = "loose" /\ loose = {})
Abort ==
    /\ ph = "run" /\ "abort" \in Ops
    /\ ph' = "idle"
    /\ \/ /\ unfin' = unfin \cup {o \in batch : Local(xs.dst)}
          /\ UNCHANGED <<store, lost, dev>>
       \/ /\ BatchComplete
          /\ store' = SealedStore /\ lost' = lost \cup LostNow /\ dev' = dev \cup DevAfterSeal
          /\ UNCHANGED unfin
    /\ act' = [op |-> "Abort"]
    /\ last' = [op |-> "abort"]
    /\ batch' = {}
    /\ UNCHANGED <<ridx, delivered, opened, gced, nx, xs, todo, cur, bound, curFails, pend, loose, failed, okDirs, bk>>

(********************************* Next ************************************)
Faults(new) == IF nx >= 1 THEN {{}} ELSE {F \in SUBSET new : Cardinality(F) <= MaxFaults}
BeginAny ==
    /\ nx < MaxXfers /\ Idle
    /\ \E p \in XferPairs, req \in Requests, m \in Modes :
         \E F \in Faults(IF Loadable(store, p[1], req, m[1])
                          THEN XStatus(store, ridx, p[1], p[2], req, m[1], m[2]).new ELSE {}) :
            TransferBegin(p[1], p[2], req, m[1], F, FALSE, m[2])

Next ==
    \/ \E s \in AddTargets, x \in Oids : AddObj(s, x)
    \/ \E s \in AddTargets, X \in {Y \in SUBSET Oids : Cardinality(Y) = 2} : AddMany(s, X)
    \/ \E X \in {Oids, {"d1", "f1", "f2"}} : IndexElsewhere(X)
    \/ \E s \in Stores, o \in Oids : Tamper(s, o)
    \/ \E s \in Stores, o \in Oids : ExtDelete(s, o)
    \/ \E s \in Stores, o \in Oids, ro \in BOOLEAN : Check(s, o, ro)
    \/ \E s \in Stores, ids \in Requests, m \in Modes, ro \in BOOLEAN : Status(s, ids, m[1], m[2], ro)
    \/ \E p \in XferPairs, ids \in Requests, m \in Modes : CompareStatus(p[1], p[2], ids, m[1])
    \/ \E s \in Stores, used \in Requests, sh \in BOOLEAN, dry \in BOOLEAN : Gc(s, used, {}, "used-first", sh, dry, FALSE, s, FALSE)
    \/ BeginAny
    \/ \E d \in Dirs : Pick(d)
    \/ \E x \in Oids : PutBound(x) \/ PutDir(x) \/ PutLoose(x)
    \/ TransferEnd
    \/ Abort

Init ==
    /\ store \in InitStores
    /\ ridx = {} /\ delivered = [s \in Stores |-> PresentSet(store, s)] /\ opened = {} /\ gced = {} /\ unfin = {} /\ dev = {}
    /\ nx = 0
    /\ act = [op |-> "Init"] /\ last = [op |-> "init"]
    /\ ph = "idle" /\ xs = [src |-> None] /\ todo = {} /\ cur = None /\ bound = {} /\ curFails = {}
    /\ pend = None /\ loose = {} /\ failed = {} /\ okDirs = {} /\ batch = {} /\ lost = {} /\ bk = "none"

Spec == Init /\ [][Next]_vars

(******************************* properties ********************************)
\* ---- C04 : a directory object in the destination implies its files -------
\* every state, also in the middle of a transfer and after an abort, for every
\* store whose history contains only dvc-data operations
\* (a store that was not closed when the history began is marked Unclosed(s) in `opened`: nothing is demanded of it, but -
\* unlike a tampered source - it does not excuse the destination of a closed request)
\* (F5 is about what a transfer REPORTS - the directory it skips is withheld all the same: it excuses nothing here)
StoreDev(d) == d \ {"F5"}
C04_Closed == StoreDev(dev) = {} => \A s \in Stores : (s \notin opened /\ Unclosed(s) \notin opened) => Closed(store, s)
C04_ClosedRaw == \A s \in Stores : (s \notin opened /\ Unclosed(s) \notin opened) => Closed(store, s)
\* at the end of a transfer: a directory one of whose files failed is withheld and reported
C04_Withheld(L, fl, okd, S, dst) ==
    \A d \in Dirs : (ListedFailure(d, fl) /\ d \in xs.new) => (d \in L.failed /\ d \notin okd)
Inv_C04_Withheld ==
    (last.op = "transfer" /\ Idle /\ dev = {}) => C04_Withheld(last, failed, okDirs, store, xs.dst)
\* a fault-free (re)run of a transfer from a closed source completes the destination
C04_Complete(L, S) ==
    (xs.F = {} /\ Closed(S, xs.src) /\ xs.dst \notin opened /\ xs.src \notin opened)
        => \A o \in Expand(xs.req, xs.shallow) : Present(S, xs.src, o) => Present(S, xs.dst, o)
Inv_C04_Complete == (last.op = "transfer" /\ Idle /\ dev = {}) => C04_Complete(last, store)

Refusal(L) == "exc" \in DOMAIN L
\* ---- C11 : the result of a transfer tells the truth -----------------------
\* evaluated when TransferEnd has just happened; S = store after, pre = dst before
C11_Disjoint(L) == L.transferred \cap L.failed = {}
C11_Partition(L) == L.transferred \cup L.failed = xs.new
C11_Arrived(L, S) == \A o \in L.transferred : Intact(S, xs.dst, o)
\* (with a remote index, files the index holds are trusted to be there - by design; external deletions from the
\* destination, which C11 does not quantify over, make that trust wrong: with an index only directory objects are demanded)
C11_AbsentReported(L, S) ==
    \A o \in Expand(xs.req, xs.shallow) :
        (~Present(S, xs.dst, o) /\ (o \in Dirs \/ ~xs.idx)) => (o \in L.failed \/ o \in xs.missing)
\* a transfer that finds nothing new returns (transferred = {}, failed = {}) at once: a = the TransferBegin record,
\* L = the xstatus result, T = stores afterwards.  With a remote index, files under a directory object that is present
\* are trusted to be there (by design), so after external deletions only directories are demanded
C11_NoopAbsentReported(T, a, L, op) ==
    (~Refusal(L) /\ L.new = {}) =>
        \A o \in Expand(a.req, a.shallow) :
            (~Present(T, a.dst, o) /\ (o \in Dirs \/ ~a.idx)) => o \in L.missing
\* a LOCAL store re-hashes every unprotected object it is asked about: as a source it never hands on a mismatching
\* unprotected object, as a destination it does not take one for "already present".  S0 = stores before the transfer.
C11_LocalSrcHonest(S0, L, T) ==
    (Local(xs.src) /\ \A o \in Oids : S0[xs.src][o] # "bad_p") => \A o \in L.transferred : T[xs.dst][o] # "bad_u"
C11_LocalDstHonest(L, T) ==
    (Local(xs.dst) /\ ~xs.idx) =>
        \A o \in Expand(xs.req, xs.shallow) : (o \notin L.failed /\ o \notin xs.missing /\ o \notin L.transferred) => T[xs.dst][o] # "bad_u"
C11_PresentUntouched(L) == (L.transferred \cup L.failed) \cap xs.pre = {}
Inv_C11 ==
    (last.op = "transfer" /\ Idle /\ dev = {}) =>
        /\ C11_Disjoint(last) /\ C11_Partition(last) /\ C11_AbsentReported(last, store)
        /\ C11_PresentUntouched(last)
        /\ (xs.src \notin opened => C11_Arrived(last, store))

\* ---- C12 : status exact, the remote index never invents objects -------------
\* truth about store s in state S as an auditor sees it: an unprotected object whose
\* bytes do not match its name does not count as there for a local store (C07)
TrulyThere(S, s, o) == Present(S, s, o) /\ ~(Local(s) /\ S[s][o] = "bad_u")
\* S before, a = the Status action record, L = its result
C12_StatusExact(S, a, L) ==
    (~Refusal(L) /\ ~a.idx) =>
        LET ids == Expand(a.ids, a.shallow)
        IN /\ L.exists = {o \in ids : TrulyThere(S, a.s, o)}
           /\ L.missing = ids \ L.exists
C12_NoStaleDir(S, a, L) ==
    (~Refusal(L) /\ a.idx) => \A d \in L.exists \cap Dirs : Present(S, a.s, d)
\* "a stale index is cleared": an indexed query that names a directory validates every directory the index holds;
\* afterwards (R2) the index holds no directory that was not in the store when the query ran
C12_StaleCleared(S, s, ids, useIdx, R2) ==
    (useIdx /\ s = IdxStore /\ ids \cap Dirs # {}) => \A d \in R2 \cap Dirs : Present(S, s, d)
\* the same for a transfer's destination query: a requested directory that is neither new nor missing was reported as
\* existing in the destination, so it is there
C12_XferNoStaleDir(S, a, L) ==
    (~Refusal(L) /\ a.idx /\ a.dst = IdxStore) =>
        \A d \in (a.req \cap Dirs) \ (L.new \cup L.missing) : Present(S, a.dst, d)
\* a transfer that could not read everything its source index promised leaves that index empty
C12_SrcIndexCleared(L, R2) == (xs.sidx /\ L.failed # {}) => R2 = {}
C12_Compare(S, a, L) ==
    ~Refusal(L) =>
        LET ids == Expand(a.ids, a.shallow)
            ea == {o \in ids : TrulyThere(S, a.a, o)}
            eb == {o \in ids : TrulyThere(S, a.b, o)}
        IN /\ L.ok = ea \cap eb /\ L.new = ea \ eb /\ L.deleted = eb \ ea /\ L.missing = ids \ (ea \cup eb)
C12_Index(S, R, D) ==
    (IdxStore \in Stores /\ IdxStore \notin opened /\ IdxStore \notin gced) =>
        \A h \in R : h \in D[IdxStore] \/ \E d \in Dirs : Present(S, IdxStore, d) /\ h \in Lists[d]
C12_IndexX(S, R, D, op, gc) == (IdxStore \in Stores /\ IdxStore \notin op /\ IdxStore \notin gc) =>
        \A h \in R : h \in D[IdxStore] \/ \E d \in Dirs : Present(S, IdxStore, d) /\ h \in Lists[d]
Inv_C12_Index == C12_Index(store, ridx, delivered)

\* ---- C06 : garbage collection ------------------------------------------------
\* S before, T after, a = the Gc action record, L = its result
GcLoadable(S, a) == a.shallow \/ \A d \in a.used \cap Dirs : Present(S, a.cs, d)
C06_UsedKept(S, T, a, L) == (GcKeep(a.used, a.shallow) \cap PresentSet(S, a.s)) \subseteq PresentSet(T, a.s)
C06_ReadOnly(S, T, a, L) == a.ro => (Refusal(L) /\ PresentSet(T, a.s) = PresentSet(S, a.s))
C06_Dry(S, T, a, L) == a.dry => PresentSet(T, a.s) = PresentSet(S, a.s)
C06_Exact(S, T, a, L) ==
    (~a.ro /\ GcLoadable(S, a)) =>
        /\ ~Refusal(L)
        /\ L.removed = Cardinality(PresentSet(S, a.s) \ GcKeep(a.used, a.shallow))
        /\ (~a.dry => PresentSet(T, a.s) = PresentSet(S, a.s) \cap GcKeep(a.used, a.shallow))
\* a used directory that cannot be expanded: refusing and touching nothing is accepted
C06_Refusal(S, T, a, L) == (~a.ro /\ ~GcLoadable(S, a)) => PresentSet(T, a.s) = PresentSet(S, a.s)

\* ---- C07 : corrupted objects detected and dropped, intact ones unharmed -------
C07_Check(S, T, a, L) ==
    LET st == S[a.s][a.o] IN
    /\ (st = "bad_u" => (L.res = "ObjectFormatError" /\ ~Present(T, a.s, a.o)))
    /\ (st \in {"ok_u", "ok_p"} => (L.res = "ok" /\ Intact(T, a.s, a.o)))
    /\ ((st \in {"ok_u", "ok_p"} /\ Local(a.s)) => T[a.s][a.o] = "ok_p")
C07_QueryDrops(S, T, a, L) ==
    (~Refusal(L) /\ ~a.idx /\ Local(a.s)) =>
        \A o \in Expand(a.ids, a.shallow) : S[a.s][o] = "bad_u" => (~Present(T, a.s, o) /\ o \in L.missing)
\* a query never turns a mismatching unprotected object into a trusted (read-only) one:
\* it leaves it alone (not examined) or removes it
C07_NoBlessing(S, T) == \A s \in Stores, o \in Oids : (S[s][o] = "bad_u" /\ T[s][o] # "bad_u") => T[s][o] = Absent
QueryOps == {"Status", "CompareStatus", "Check", "TransferBegin"}
C07_IntactUnharmed(S, T) == \A s \in Stores, o \in Oids : Intact(S, s, o) => Intact(T, s, o)

\* the step predicates as one action property over the design (act' identifies the step)
StepProps ==
    /\ (act'.op = "Status" => /\ C12_StatusExact(store, act', last') /\ C12_NoStaleDir(store, act', last')
                               /\ C07_QueryDrops(store, store', act', last'))
    /\ (act'.op = "Status" /\ ~Refusal(last') => C12_StaleCleared(store, act'.s, act'.ids, act'.idx, ridx'))
    /\ (act'.op = "TransferBegin" => /\ (~Refusal(last') => C12_StaleCleared(store, act'.dst, act'.req, act'.idx, ridx'))
                                      /\ C12_XferNoStaleDir(store, act', last')
                                      /\ C11_NoopAbsentReported(store', act', last', opened'))
    /\ (act'.op = "CompareStatus" => C12_Compare(store, act', last'))
    /\ (act'.op = "Gc" => /\ C06_UsedKept(store, store', act', last') /\ C06_ReadOnly(store, store', act', last')
                           /\ C06_Dry(store, store', act', last') /\ C06_Exact(store, store', act', last')
                           /\ C06_Refusal(store, store', act', last'))
    /\ (act'.op = "Check" => C07_Check(store, store', act', last'))
    /\ (act'.op \notin {"Tamper", "ExtDelete", "Gc"} => C07_IntactUnharmed(store, store'))
    /\ (act'.op \in QueryOps => C07_NoBlessing(store, store'))
StepPropsHold == [][StepProps]_vars

\* ---- C01 : whatever dvc-data operations leave in a store matches its name --
C01_Addressed == \A s \in Stores : s \notin opened => \A o \in Oids : store[s][o] \in {Absent, "ok_u", "ok_p"}
C01_Protected == Idle => \A s \in Stores : (Local(s) /\ s \notin opened) =>
                    \A o \in Oids : store[s][o] = "ok_u" => o \in unfin

TypeOK ==
    /\ store \in [Stores -> [Oids -> {Absent, "ok_u", "ok_p", "bad_u", "bad_p"}]]
    /\ ridx \subseteq Oids
    /\ ph \in {"idle", "run"}
    /\ \A s \in Stores : ~Local(s) => \A o \in Oids : store[s][o] \notin {"ok_p", "bad_p"}
=============================================================================
