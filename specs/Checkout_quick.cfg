\* one checkout from every prior workspace (absent / file / directory of <= 2 files, copies), every cache content,
\* every target (none / file / tree), force x relink x prompt; configured link type copy
SPECIFICATION Spec
CONSTANTS
    Keys <- KeysDef
    Contents <- ContentsDef
    Root = "."
    LinkType = "copy"
    KnownDev = {}
    MaxCheckouts = 1
    InitWs <- WsCopy
    InitCache <- CacheOkNone
    Twins <- TwinsDef
    Prompts = {"absent", "accepts"}
INVARIANT Inv_C05
INVARIANT Inv_C05_Refusal
INVARIANT Inv_C10_Converges
INVARIANT Inv_C10_Relinked
INVARIANT Inv_C10_Idempotent
