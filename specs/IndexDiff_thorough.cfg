\* every pair of well-formed indexes over keys {a, a/x, a/y}, two file metas (one with a checksum), 3 comparison keys, two file hashes, 36 option sets
SPECIFICATION Spec
CONSTANTS
    Keys <- KeysM
    Parent <- ParentM
    FileMetas = {"f1", "f3"}
    FileHashes = {"h1", "h2"}
    Root = ""
INVARIANT Inv_Done
INVARIANT Inv_Exact
INVARIANT Inv_SelfEmpty
INVARIANT Inv_SwapSymmetric
