\* every pair of well-formed indexes over keys {a, a/x, a/y}, one file meta, two file hashes, 12 option sets
SPECIFICATION Spec
CONSTANTS
    Keys <- KeysM
    Parent <- ParentM
    FileMetas = {"f1"}
    FileHashes = {"h1", "h2"}
    Root = ""
INVARIANT Inv_Done
INVARIANT Inv_Exact
INVARIANT Inv_SelfEmpty
INVARIANT Inv_SwapSymmetric
