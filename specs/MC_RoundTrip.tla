---------------------------- MODULE MC_RoundTrip ----------------------------
EXTENDS RoundTrip
PathsDef == {"a", "b", "s/c", "s/t/d", "u/e"}
ContentsDef == {"c0", "c1", "c2", "c3"}      \* c3 has the size of c1
SizeDef == [c \in ContentsDef |-> IF c = "c0" THEN 0 ELSE IF c \in {"c1", "c3"} THEN 18 ELSE 20]
ContentsTr == ContentsDef \cup {"other"}
SizeTr == [c \in ContentsTr |-> IF c = "c0" THEN 0 ELSE IF c \in {"c1", "c3"} THEN 18 ELSE IF c = "c2" THEN 20 ELSE 1]
=============================================================================
