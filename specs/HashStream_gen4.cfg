\* every content of <= 4 units over 6 unit kinds, every sequence of read sizes 1..4 units, both streams
SPECIFICATION Spec
CONSTANTS
    Kinds = {"T", "C", "R", "L", "N", "H"}
    MaxLen = 4
    ReadSizes = {1, 2, 3, 4}
    WindowUnits = 2
    Short = FALSE
INVARIANT GenPrint
