\* C06 / C07 / C12: one public call (status, compare_status, gc, check) from every mixed store content
SPECIFICATION Spec
CONSTANTS
    Files <- FilesDef
    Dirs <- DirsDef
    Lists <- ListsDef
    Stores <- StoresDef
    Class <- ClassDef
    IdxStore = "remote"
    KnownDev = {}
    Ops = {"status", "cmpstatus", "gc", "check"}
    Requests <- ReqAll
    MaxFaults = 0
    MaxXfers = 0
    XferPairs <- BothPairs
    AddTargets = {}
    Modes <- AllModes
    InitStores <- InitMixed
CONSTRAINT OneStep
INVARIANT TypeOK
INVARIANT Inv_C12_Index
PROPERTY StepPropsHold
