----------------------------- MODULE MC_Checkout -----------------------------
EXTENDS Checkout
KeysDef == {"a", "s/b"}
KeysTr == {"a", "s/b", "s/t/c"}
AllK == Keys \cup {"."}
ContentsDef == {"c0", "c1", "c2"}
TwinsDef == {<<"c1", "c2">>, <<"c2", "c1">>}      \* c1 and c2 have the same size
ContentsTr == {"c0", "c1", "c2", "c3", "other", "dangling"}
NoFiles == [x \in AllK |-> NoFile]
FileOpts(lts) == {NoFile} \cup {F(c, lt) : c \in ContentsDef, lt \in lts}
WsSet(lts) ==
    {[kind |-> "absent", files |-> NoFiles]}
    \cup {[kind |-> "file", files |-> [x \in AllK |-> IF x = "." THEN F(c, lt) ELSE NoFile]] : c \in ContentsDef, lt \in lts}
    \cup {[kind |-> "dir", files |-> [x \in AllK |-> IF x = "." THEN NoFile ELSE fm[x]]] : fm \in [Keys -> FileOpts(lts)]}
WsCopy == WsSet({"copy"})
WsAnyLink == WsSet({"copy", "hard", "sym"})
CacheOkNone == [ContentsDef -> {"ok", "none"}]
WsAbsent == {[kind |-> "absent", files |-> NoFiles]}
CacheFull == {[c \in ContentsDef |-> "ok"]}
CacheAny == [ContentsDef -> {"ok", "none", "bad"}]
=============================================================================
