\* 3 paths (one sub-directory), 2 contents, all walk / completion orders, cold / warm / partially warm cache, <= 4 steps
INIT Init
NEXT NextAny
CONSTANTS
    Paths <- PathsT
    Contents = {"c0", "c1", "c2", "c3", "big1", "big2"}
    SubDirs <- SubDirsT
    Under <- UnderT
    MaxSteps = 10
