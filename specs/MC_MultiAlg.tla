----------------------------- MODULE MC_MultiAlg -----------------------------
EXTENDS MultiAlg, Sequences
StoresDef == {"legacy", "cache", "plain"}      \* plain: a generic-class store (md5) on a local directory
LocalDef == {"legacy", "cache"}
AlgDef == [s \in StoresDef |-> IF s = "legacy" THEN "md5-dos2unix" ELSE "md5"]
ContentsDef == {"lf", "lf2", "lfcr", "crlf", "bin"}   \* lf2 = LF text of the same size as lf; lfcr = the CRLF twin of lf; bin = binary data containing CR LF pairs
\* md5 and md5-dos2unix agree exactly on content without CRLF pairs in a text file; under md5-dos2unix a CRLF text
\* file has the md5 of its LF twin
DigDef == [a \in {"md5", "md5-dos2unix"} |-> [c \in ContentsDef |-> IF a = "md5" THEN "m:" \o c ELSE IF c = "crlf" THEN "d:crlf" ELSE IF c = "lfcr" THEN "m:lf" ELSE "m:" \o c]]
PathsDef == {"p", "q"}
OneDef == "p"
=============================================================================
