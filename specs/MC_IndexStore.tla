---------------------------- MODULE MC_IndexStore ----------------------------
EXTENDS IndexStore
KeysDef == {"p", "d", "d/x", "d/y"}
LazyDef == {"d"}
KidsDef == [k \in LazyDef |-> {"d/x", "d/y"}]
E(m, h, l) == [meta |-> m, hash |-> h, loaded |-> l]
\* ("fr" = the file metadata "f" plus the name of the remote it came from - a field that takes no part in the equality
\* of metadata objects but is serialised)
EntriesDef == {E("f", "h", "N"), E("fr", "h", "N"), E("none", "h", "N"), E("empty", "h", "N"), E("none", "none", "N"),
               E("d", "dirhash", "N"), E("d", "dirhash", "F"), E("d", "none", "T")}
EntriesQuick == {E("f", "h", "N"), E("fr", "h", "N"), E("empty", "h", "N"), E("d", "dirhash", "N"), E("d", "none", "T")}
KidDef == E("k", "hk", "N")
=============================================================================
